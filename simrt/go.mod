module simrt

go 1.23
