//go:build !race

package simrt

// RaceBuild reports whether the race detector is compiled in.
const RaceBuild = false

func raceDisable() {}
func raceEnable()  {}
