// Package simrt is a deterministic scheduler runtime for Go code whose concurrency primitives have been
// routed to it (by /verif/simrewrite for the analyser, by /verif/progen for generated programs).
//
// Exactly one task executes user code at a time (two during the hand-over of an unbuffered channel
// rendezvous, where both only execute the native channel operation). Which task proceeds is decided
// here, from a tape of uint32 choices, so one tape is one exactly repeatable execution.
//
// The baton that parks and releases tasks is invisible to the Go race detector: every function that
// touches scheduler state is //go:norace, uses fixed arrays only (no Go maps, no append), and every
// real synchronisation operation used for parking is bracketed by runtime.RaceDisable/RaceEnable so
// that it contributes no happens-before edge. The race detector therefore sees only the simulated
// program's own synchronisation, and reports unsynchronised accesses even though they never overlap
// in real time.
package simrt

import (
	"fmt"
	"runtime"
	"runtime/debug"
	"sync"
	"time"
	"unsafe"
)

const (
	maxTasks  = 256
	maxPrims  = 8192
	maxEvents = 1 << 19
	maxProbes = 64
	maxOpts   = 1024
)

// request kinds
const (
	rNone int32 = iota
	rStart
	rYield
	rResume
	rSend
	rRecv
	rLock
	rRLock
	rWait
	rOnce
	rSelect
)

// task states
const (
	tPending int32 = iota
	tRunning
	tDone
)

// primitive kinds
const (
	pChan int32 = iota + 1
	pMutex
	pWg
	pOnce
)

// Event operation codes (also used in the event log)
const (
	OpStart int32 = iota + 1
	OpYield
	OpResume
	OpSend
	OpRecv
	OpRecvClosed
	OpRendezvous
	OpLock
	OpRLock
	OpWait
	OpOnce
	OpExit
	OpSelect
)

type task struct {
	id         int32
	ch         chan struct{}
	state      int32
	kind       int32
	prim       int32
	site       int32
	parent     int32
	createSite int32
	demote     int32
	sel        [4]int32 // rSelect: the channels of the receive cases
	nsel       int32
	selChoice  int32
}

type prim struct {
	ptr     unsafe.Pointer
	kind    int32
	cap     int32
	count   int32
	closed  bool
	locked  bool
	readers int32
	counter int32
	once    int32 // 0 not started, 1 running, 2 done
}

// Event is one scheduling decision.
type Event struct {
	Task, Task2, Site, Op int32
}

type option struct{ a, b int32 }

// Params of one simulated run. Everything that influences the execution is in here.
type Params struct {
	Tape []uint32 `json:"tape"`
	// NumCPU is what simrt.NumCPU() returns.
	NumCPU int `json:"numcpu"`
	// MapPermPct: percentage of RangeMap sites whose order is permuted from the tape (others iterate canonically).
	MapPermPct int    `json:"map_perm_pct"`
	MapSalt    uint32 `json:"map_salt"`
	// RangeYieldPct: percentage of RangeMap sites that yield before every element.
	RangeYieldPct int `json:"range_yield_pct"`
	// PrioSalt != 0 selects priority scheduling: the enabled option whose first task has the highest
	// hash(PrioSalt, task) - demotions wins; a non-zero tape value at a decision demotes the winner first.
	PrioSalt uint32 `json:"prio_salt"`
	// Starvation: options of task StarveTask are withheld during steps [StarveFrom, StarveFrom+StarveLen)
	// whenever something else is enabled.
	StarveTask int `json:"starve_task"`
	StarveFrom int `json:"starve_from"`
	StarveLen  int `json:"starve_len"`
	// StarveSite >0: tasks created at this go-site are starved (same window) instead of a task id.
	StarveSite int `json:"starve_site"`
	MaxSteps   int `json:"max_steps"`
	// PanicEndsProgram: a panic reaching the top of a task ends the run as a normal outcome (system B).
	// Otherwise it is recorded as a crash of the simulated system.
	PanicEndsProgram bool `json:"panic_ends_program"`
	// WorklistPermPct: percentage of Pick sites (work-queue seams) that are permuted.
	WorklistPermPct int `json:"worklist_perm_pct"`
	// FaultSite / FaultAt: Fault(site) returns true at the FaultAt-th evaluation (1-based) of that site. 0 = never.
	FaultSite int `json:"fault_site"`
	FaultAt   int `json:"fault_at"`
}

// TaskInfo describes a task for reports.
type TaskInfo struct {
	ID         int    `json:"id"`
	CreateSite int    `json:"create_site"`
	Parent     int    `json:"parent"`
	Blocked    string `json:"blocked,omitempty"`
	Site       int    `json:"site"`
}

// PanicInfo records a panic that reached the top of a task.
type PanicInfo struct {
	Task       int    `json:"task"`
	CreateSite int    `json:"create_site"`
	Value      string `json:"value"`
	Stack      string `json:"stack,omitempty"`
}

// Result of one simulated run.
type Result struct {
	Steps          int         `json:"steps"`
	Decisions      int         `json:"decisions"`
	MultiDecisions int         `json:"multi_decisions"`
	Switches       int         `json:"switches"`
	Rendezvous     int         `json:"rendezvous"`
	Tasks          int         `json:"tasks"`
	TapeUsed       int         `json:"tape_used"`
	Deadlock       bool        `json:"deadlock"`
	Budget         bool        `json:"budget"`
	Aborted        bool        `json:"aborted"`
	Blocked        []TaskInfo  `json:"blocked,omitempty"`
	AliveAtMainRet []TaskInfo  `json:"alive_at_main_return,omitempty"`
	Panics         []PanicInfo `json:"panics,omitempty"`
	SchedFP        uint64      `json:"sched_fp"`
	MapFP          uint64      `json:"map_fp"`
	MapCalls       int         `json:"map_calls"`
	MapPermuted    int         `json:"map_permuted"`
	MapMulti       int         `json:"map_multi"`
	KeyTies        int         `json:"key_ties"`
	Picks          int         `json:"picks"`
	PicksPermuted  int         `json:"picks_permuted"`
	FaultsFired    int         `json:"faults_fired"`
	Probes         []int       `json:"probes,omitempty"`
	Starved        int         `json:"starved_decisions"`
}

var s struct {
	mu      sync.Mutex
	active  bool
	tasks   [maxTasks]*task
	ntasks  int32
	prims   [maxPrims]prim
	nprims  int32
	events  [maxEvents]Event
	nevents int32
	opts    [maxOpts]option
	running int32
	current int32
	alive   int32
	quiet   bool
	steps   int64

	p       Params
	tapePos int

	decisions, multi, switches, rendezvous, starved int
	deadlock, budget, aborted, finished            bool
	mainReturned                                   bool
	aliveAtMain                                    [maxTasks]bool
	done                                           chan struct{}
	lastTask                                       int32

	mapFP                                   uint64
	mapCalls, mapPermuted, mapMulti, keyTie int
	picks, picksPermuted                    int
	faultCount, faultsFired                 int
	probes                                  [maxProbes]int
}

// panics is only appended to while holding the scheduler lock, from a norace function, into a
// preallocated array.
var panicsBuf [16]PanicInfo
var npanics int

var realWG *sync.WaitGroup

//go:norace
func lock() {
	raceDisable()
	s.mu.Lock()
}

//go:norace
func unlock() {
	s.mu.Unlock()
	raceEnable()
}

//go:norace
func park(t *task) {
	raceDisable()
	<-t.ch
	raceEnable()
}

//go:norace
func wake(t *task) {
	raceDisable()
	t.ch <- struct{}{}
	raceEnable()
}

//go:norace
func signalDone() {
	if s.finished {
		return
	}
	s.finished = true
	raceDisable()
	s.done <- struct{}{}
	raceEnable()
}

// Active reports whether a simulation is running.
//
//go:norace
func Active() bool { return s.active }

//go:norace
func mix(x uint64) uint64 {
	x += 0x9e3779b97f4a7c15
	x = (x ^ (x >> 30)) * 0xbf58476d1ce4e5b9
	x = (x ^ (x >> 27)) * 0x94d049bb133111eb
	return x ^ (x >> 31)
}

//go:norace
func nextTape() uint32 {
	if s.tapePos < len(s.p.Tape) {
		v := s.p.Tape[s.tapePos]
		s.tapePos++
		return v
	}
	s.tapePos++
	return 0
}

//go:norace
func findPrim(ptr unsafe.Pointer, kind int32, capacity int32) int32 {
	if ptr == nil {
		return -1
	}
	for i := int32(0); i < s.nprims; i++ {
		if s.prims[i].ptr == ptr {
			return i
		}
	}
	if s.nprims >= maxPrims {
		panic("simrt: too many primitives")
	}
	i := s.nprims
	s.nprims++
	s.prims[i] = prim{ptr: ptr, kind: kind, cap: capacity}
	return i
}

//go:norace
func optionEnabled(t *task) bool {
	switch t.kind {
	case rStart, rYield, rResume:
		return true
	case rSend:
		if t.prim < 0 {
			return false
		}
		p := &s.prims[t.prim]
		if p.closed {
			return true
		}
		return p.cap > 0 && p.count < p.cap
	case rRecv:
		if t.prim < 0 {
			return false
		}
		p := &s.prims[t.prim]
		if p.cap > 0 {
			return p.count > 0 || p.closed
		}
		return p.closed
	case rLock:
		p := &s.prims[t.prim]
		return !p.locked && p.readers == 0
	case rRLock:
		p := &s.prims[t.prim]
		return !p.locked
	case rWait:
		return s.prims[t.prim].counter <= 0
	case rOnce:
		return s.prims[t.prim].once != 1
	case rSelect:
		for i := int32(0); i < t.nsel; i++ {
			if selReady(t.sel[i]) {
				return true
			}
		}
		return false
	}
	return false
}

// selReady: a receive case of a select is ready when its (buffered) channel holds a value or is closed.
//
//go:norace
func selReady(pr int32) bool {
	if pr < 0 {
		return false
	}
	p := &s.prims[pr]
	return p.count > 0 || p.closed
}

//go:norace
func starvedTask(t *task) bool {
	if s.p.StarveLen <= 0 {
		return false
	}
	if int(s.steps) < s.p.StarveFrom || int(s.steps) >= s.p.StarveFrom+s.p.StarveLen {
		return false
	}
	if s.p.StarveSite > 0 {
		return int(t.createSite) == s.p.StarveSite
	}
	return int(t.id) == s.p.StarveTask
}

// decide picks and grants the next action. Precondition: scheduler lock held, s.running == 0.
// No closures in here: only the declared function carries the norace pragma for certain.
//
//go:norace
func decide() {
	if s.finished {
		return
	}
	// visiting order: the task that ran last comes first (the calm default is: keep going), then by id
	var order [maxTasks]int32
	pending := 0
	if s.lastTask >= 0 && s.lastTask < s.ntasks && s.tasks[s.lastTask].state == tPending {
		order[pending] = s.lastTask
		pending++
	}
	for i := int32(0); i < s.ntasks; i++ {
		if i != s.lastTask && s.tasks[i].state == tPending {
			order[pending] = i
			pending++
		}
	}
	n := 0
	for oi := 0; oi < pending; oi++ {
		t := s.tasks[order[oi]]
		if optionEnabled(t) {
			if n < maxOpts {
				s.opts[n] = option{t.id, -1}
				n++
			}
			continue
		}
		// unbuffered rendezvous: enumerated from whichever party is visited first; duplicates removed.
		if (t.kind == rSend || t.kind == rRecv) && t.prim >= 0 {
			p := &s.prims[t.prim]
			if p.cap == 0 && !p.closed {
				other := rRecv
				if t.kind == rRecv {
					other = rSend
				}
				for j := int32(0); j < s.ntasks; j++ {
					u := s.tasks[j]
					if u.state == tPending && u.kind == other && u.prim == t.prim {
						a, b := t.id, u.id
						if t.kind == rRecv {
							a, b = u.id, t.id
						}
						dup := false
						for k := 0; k < n; k++ {
							if s.opts[k].a == a && s.opts[k].b == b {
								dup = true
								break
							}
						}
						if !dup && n < maxOpts {
							s.opts[n] = option{a, b}
							n++
						}
					}
				}
			}
		}
	}
	if n == 0 {
		if pending > 0 {
			s.deadlock = true
			s.aborted = true
		}
		signalDone()
		return
	}
	if s.p.MaxSteps > 0 && int(s.steps) >= s.p.MaxSteps {
		s.budget = true
		s.aborted = true
		signalDone()
		return
	}
	// starvation filter
	if s.p.StarveLen > 0 {
		m := 0
		var keep [maxOpts]option
		for k := 0; k < n; k++ {
			o := s.opts[k]
			st := starvedTask(s.tasks[o.a]) || (o.b >= 0 && starvedTask(s.tasks[o.b]))
			if !st {
				keep[m] = o
				m++
			}
		}
		if m > 0 && m < n {
			for k := 0; k < m; k++ {
				s.opts[k] = keep[k]
			}
			n = m
			s.starved++
		}
	}
	idx := 0
	s.decisions++
	if n > 1 {
		s.multi++
		v := nextTape()
		if s.p.PrioSalt != 0 {
			idx = bestPrio(n)
			if v != 0 {
				s.tasks[s.opts[idx].a].demote++
				idx = bestPrio(n)
			}
		} else {
			idx = int(v % uint32(n))
		}
	}
	grant(s.opts[idx])
}

//go:norace
func bestPrio(n int) int {
	bi, bp := 0, int64(-1<<62)
	for k := 0; k < n; k++ {
		t := s.tasks[s.opts[k].a]
		pr := int64(mix(uint64(s.p.PrioSalt)<<32|uint64(t.id))>>40) - int64(t.demote)<<26
		if pr > bp {
			bi, bp = k, pr
		}
	}
	return bi
}

//go:norace
func logEvent(e Event) {
	if s.nevents < maxEvents {
		s.events[s.nevents] = e
		s.nevents++
	}
}

//go:norace
func grant(o option) {
	s.steps++
	a := s.tasks[o.a]
	if o.b >= 0 {
		b := s.tasks[o.b]
		logEvent(Event{a.id, b.id, a.site, OpRendezvous})
		s.rendezvous++
		if s.lastTask != a.id && s.lastTask != b.id {
			s.switches++
		}
		s.lastTask = b.id
		a.state, b.state = tRunning, tRunning
		s.running = 2
		s.current = -1
		wake(a)
		wake(b)
		return
	}
	op := OpYield
	switch a.kind {
	case rStart:
		op = OpStart
	case rResume:
		op = OpResume
	case rSend:
		op = OpSend
		p := &s.prims[a.prim]
		if !p.closed {
			p.count++
		}
	case rRecv:
		p := &s.prims[a.prim]
		if p.count > 0 {
			p.count--
			op = OpRecv
		} else {
			op = OpRecvClosed
		}
	case rLock:
		op = OpLock
		s.prims[a.prim].locked = true
	case rRLock:
		op = OpRLock
		s.prims[a.prim].readers++
	case rWait:
		op = OpWait
	case rOnce:
		op = OpOnce
		if s.prims[a.prim].once == 0 {
			s.prims[a.prim].once = 1
		}
	case rSelect:
		op = OpSelect
		// which ready case is taken is a decision of its own
		var ready [4]int32
		n := int32(0)
		for i := int32(0); i < a.nsel; i++ {
			if selReady(a.sel[i]) {
				ready[n] = i
				n++
			}
		}
		c := int32(0)
		if n > 1 {
			c = int32(nextTape() % uint32(n))
		}
		a.selChoice = ready[c]
		if p := &s.prims[a.sel[a.selChoice]]; p.count > 0 {
			p.count--
		}
	}
	logEvent(Event{a.id, -1, a.site, op})
	if s.lastTask != a.id {
		s.switches++
	}
	s.lastTask = a.id
	a.state = tRunning
	s.running = 1
	s.current = a.id
	wake(a)
}

// request registers the current task's request, lets the scheduler decide, and returns when the
// request has been granted. It returns the task so that post can be called without consulting s.current.
//
//go:norace
func request(kind int32, site int32, pr int32) *task {
	lock()
	if s.current < 0 {
		unlock()
		panic("simrt: scheduling operation from a goroutine that does not hold the baton")
	}
	t := s.tasks[s.current]
	t.kind, t.site, t.prim = kind, site, pr
	t.state = tPending
	s.running--
	if s.running == 0 {
		decide()
	}
	unlock()
	park(t)
	return t
}

// post is called by both parties after a rendezvous.
//
//go:norace
func post(t *task) {
	lock()
	t.kind = rResume
	t.state = tPending
	s.running--
	if s.running == 0 {
		decide()
	}
	unlock()
	park(t)
}

//go:norace
func newTask(site int32) *task {
	lock()
	if s.ntasks >= maxTasks {
		unlock()
		panic("simrt: too many tasks")
	}
	t := &task{id: s.ntasks, ch: make(chan struct{}, 1), state: tPending, kind: rStart, site: site, parent: s.current, createSite: site}
	s.tasks[s.ntasks] = t
	s.ntasks++
	s.alive++
	unlock()
	return t
}

//go:norace
func taskExit(t *task, pv any, stack []byte) {
	lock()
	t.state = tDone
	s.alive--
	logEvent(Event{t.id, -1, t.site, OpExit})
	if pv != nil {
		if npanics < len(panicsBuf) {
			panicsBuf[npanics] = PanicInfo{Task: int(t.id), CreateSite: int(t.createSite), Value: fmt.Sprint(pv), Stack: string(stack)}
			npanics++
		}
		s.aborted = true
		signalDone()
		unlock()
		return
	}
	if t.id == 0 {
		s.mainReturned = true
		for i := int32(1); i < s.ntasks; i++ {
			s.aliveAtMain[i] = s.tasks[i].state != tDone
		}
	}
	s.running--
	if s.running == 0 {
		decide()
	}
	unlock()
}

func runTask(t *task, wg *sync.WaitGroup, f func()) {
	park(t)
	normal := false
	defer func() {
		if normal {
			taskExit(t, nil, nil)
			wg.Done()
			return
		}
		pv := recover()
		if pv == nil {
			pv = "runtime.Goexit"
		}
		taskExit(t, pv, debug.Stack())
		// the goroutine is not joined: the run is over.
	}()
	f()
	normal = true
}

// Go1 .. Go4 start f(a...) as a new task; callee and arguments are evaluated by the caller, as in a go statement.
func Go1[A any](site int, f func(A), a A) { Go0(site, func() { f(a) }) }

// Go2 see Go1.
func Go2[A, B any](site int, f func(A, B), a A, b B) { Go0(site, func() { f(a, b) }) }

// Go3 see Go1.
func Go3[A, B, C any](site int, f func(A, B, C), a A, b B, c C) { Go0(site, func() { f(a, b, c) }) }

// Go4 see Go1.
func Go4[A, B, C, D any](site int, f func(A, B, C, D), a A, b B, c C, d D) {
	Go0(site, func() { f(a, b, c, d) })
}

// Go5 see Go1.
func Go5[A, B, C, D, E any](site int, f func(A, B, C, D, E), a A, b B, c C, d D, e E) {
	Go0(site, func() { f(a, b, c, d, e) })
}

// Go6 see Go1.
func Go6[A, B, C, D, E, F any](site int, f func(A, B, C, D, E, F), a A, b B, c C, d D, e E, g F) {
	Go0(site, func() { f(a, b, c, d, e, g) })
}

// Go is Go0.
func Go(site int, f func()) { Go0(site, f) }

// Go0 starts f as a new task. The caller has already evaluated the callee and its arguments.
func Go0(site int, f func()) {
	if !Active() {
		go f()
		return
	}
	t := newTask(int32(site))
	wg := realWG
	wg.Add(1)
	go runTask(t, wg, f)
	Yield(site)
}

// Yield is a scheduling point with no other effect. While a single task is alive there is nothing to
// decide and it returns at once (no step is counted): sequential phases cost nothing.
func Yield(site int) {
	if !Active() || alone() {
		return
	}
	request(rYield, int32(site), -1)
}

//go:norace
func alone() bool { return s.alive <= 1 && s.current >= 0 }

// Y is Yield returning a value, for use in expression position: After(Y(site), expr).
func Y(site int) struct{} {
	Yield(site)
	return struct{}{}
}

// After returns v; its first argument exists only to be evaluated before v.
func After[T any](_ struct{}, v T) T { return v }

// After2 is After for two-valued calls: After2(Y(site))(f()).
func After2[A any, B any](_ struct{}) func(A, B) (A, B) {
	return func(a A, b B) (A, B) { return a, b }
}

// NumCPU replaces runtime.NumCPU.
//
//go:norace
func NumCPU() int {
	if !s.active || s.p.NumCPU <= 0 {
		return runtime.NumCPU()
	}
	return s.p.NumCPU
}

var epoch = time.Unix(1_700_000_000, 0)

//go:norace
func stepsNow() int64 { return s.steps }

// Now replaces time.Now: a logical clock, one microsecond per scheduling step.
func Now() time.Time {
	if !Active() {
		return time.Now()
	}
	return epoch.Add(time.Duration(stepsNow()) * time.Microsecond)
}

// Since replaces time.Since.
func Since(t time.Time) time.Duration {
	if !Active() {
		return time.Since(t)
	}
	return Now().Sub(t)
}

// CurrentTask returns the id of the task holding the baton (-1 during a rendezvous hand-over or outside a run).
//
//go:norace
func CurrentTask() int { return int(s.current) }

// Steps returns the number of scheduling steps so far (the logical clock).
//
//go:norace
func Steps() int { return int(s.steps) }

var hookFn func(site int, arg any)

// SetHook installs the function called by Hook (nil removes it). Call outside a run.
func SetHook(f func(site int, arg any)) { hookFn = f }

// Hook is an observation point the instrumenter places after selected calls. The installed function runs only
// while a single task is alive (it may read the simulated system's state without racing with it).
func Hook(site int, arg any) {
	if hookFn != nil && Active() && alone() {
		setQuiet(true)
		defer setQuiet(false)
		hookFn(site, arg)
	}
}

// While an observer runs, map iterations it triggers in the simulated system's code are canonical and draw nothing
// from the tape: observing must not perturb the execution.
//
//go:norace
func setQuiet(q bool) { s.quiet = q }

// Probe counts that a branch of interest was reached.
//
//go:norace
func Probe(i int) {
	if i >= 0 && i < maxProbes {
		lock()
		s.probes[i]++
		unlock()
	}
}

// Fault reports whether the fault point should fire now.
//
//go:norace
func Fault(site int) bool {
	if !s.active || s.p.FaultSite == 0 || s.p.FaultSite != site {
		return false
	}
	lock()
	s.faultCount++
	fire := s.faultCount == s.p.FaultAt
	if fire {
		s.faultsFired++
	}
	unlock()
	return fire
}

//go:norace
func blockedDesc(t *task) string {
	switch t.kind {
	case rSend:
		return "chan send"
	case rRecv:
		return "chan receive"
	case rLock:
		return "mutex lock"
	case rRLock:
		return "rwmutex rlock"
	case rWait:
		return "waitgroup wait"
	case rOnce:
		return "once"
	case rStart:
		return "not started"
	}
	return "runnable"
}

//go:norace
func collect() Result {
	r := Result{
		Steps: int(s.steps), Decisions: s.decisions, MultiDecisions: s.multi, Switches: s.switches,
		Rendezvous: s.rendezvous, Tasks: int(s.ntasks), TapeUsed: s.tapePos, Deadlock: s.deadlock,
		Budget: s.budget, Aborted: s.aborted, MapFP: s.mapFP, MapCalls: s.mapCalls, MapPermuted: s.mapPermuted,
		MapMulti: s.mapMulti, KeyTies: s.keyTie, Picks: s.picks, PicksPermuted: s.picksPermuted,
		FaultsFired: s.faultsFired, Starved: s.starved,
	}
	h := uint64(1469598103934665603)
	for i := int32(0); i < s.nevents; i++ {
		e := s.events[i]
		h = (h ^ uint64(uint32(e.Task))) * 1099511628211
		h = (h ^ uint64(uint32(e.Task2))) * 1099511628211
		h = (h ^ uint64(uint32(e.Site))) * 1099511628211
		h = (h ^ uint64(uint32(e.Op))) * 1099511628211
	}
	r.SchedFP = h
	for i := int32(0); i < s.ntasks; i++ {
		t := s.tasks[i]
		if s.aborted && t.state != tDone {
			r.Blocked = append(r.Blocked, TaskInfo{ID: int(t.id), CreateSite: int(t.createSite), Parent: int(t.parent), Blocked: blockedDesc(t), Site: int(t.site)})
		}
		if s.aliveAtMain[i] {
			r.AliveAtMainRet = append(r.AliveAtMainRet, TaskInfo{ID: int(t.id), CreateSite: int(t.createSite), Parent: int(t.parent), Site: int(t.site)})
		}
	}
	for i := 0; i < npanics; i++ {
		r.Panics = append(r.Panics, panicsBuf[i])
	}
	last := -1
	for i := 0; i < maxProbes; i++ {
		if s.probes[i] != 0 {
			last = i
		}
	}
	for i := 0; i <= last; i++ {
		r.Probes = append(r.Probes, s.probes[i])
	}
	return r
}

// Events returns a copy of the event log of the last run.
//
//go:norace
func Events() []Event {
	out := make([]Event, s.nevents)
	for i := range out {
		out[i] = s.events[i]
	}
	return out
}

//go:norace
func reset(p Params) {
	for i := int32(0); i < s.ntasks; i++ {
		s.tasks[i] = nil
	}
	for i := int32(0); i < s.nprims; i++ {
		s.prims[i] = prim{}
	}
	s.ntasks, s.nprims, s.nevents = 0, 0, 0
	s.running, s.current, s.steps = 0, -1, 0
	s.alive = 1
	s.p = p
	s.tapePos = 0
	s.decisions, s.multi, s.switches, s.rendezvous, s.starved = 0, 0, 0, 0, 0
	s.deadlock, s.budget, s.aborted, s.finished, s.mainReturned = false, false, false, false, false
	for i := range s.aliveAtMain {
		s.aliveAtMain[i] = false
	}
	s.done = make(chan struct{}, 1)
	s.lastTask = 0
	s.mapFP = 1469598103934665603
	s.mapCalls, s.mapPermuted, s.mapMulti, s.keyTie = 0, 0, 0, 0
	s.picks, s.picksPermuted = 0, 0
	s.faultCount, s.faultsFired = 0, 0
	for i := range s.probes {
		s.probes[i] = 0
	}
	npanics = 0
	resetCaches()
}

//go:norace
func startMain(t *task) {
	lock()
	s.active = true
	s.running = 0
	decide()
	unlock()
}

//go:norace
func waitDone() {
	raceDisable()
	<-s.done
	raceEnable()
}

//go:norace
func deactivate() {
	lock()
	s.active = false
	s.current = -1
	unlock()
}

// Run executes main as task 0 under the scheduler and returns when every task has exited, or the
// run was aborted (deadlock, step budget, panic). After an aborted run parked goroutines are left
// behind; the caller should not start many further runs in the same process.
func Run(p Params, main func()) Result {
	if Active() {
		panic("simrt: nested Run")
	}
	reset(p)
	wg := &sync.WaitGroup{}
	realWG = wg
	lock()
	t := &task{id: 0, ch: make(chan struct{}, 1), state: tPending, kind: rStart, parent: -1}
	s.tasks[0] = t
	s.ntasks = 1
	unlock()
	wg.Add(1)
	go runTask(t, wg, main)
	startMain(t)
	waitDone()
	res := collect()
	deactivate()
	if !res.Aborted {
		wg.Wait() // real join: orders everything in this run before the next one
	}
	return res
}
