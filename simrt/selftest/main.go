// Selftest of simrt: determinism, race-oracle sensitivity, deadlock and leak detection.
package main

import (
	"encoding/json"
	"flag"
	"fmt"
	"os"
	"sync"

	"simrt"
)

type elt[T any] struct {
	idx int
	x   T
}

// mapParallel is a line-for-line clone of funcutil.MapParallel with primitives routed to simrt.
func mapParallel[T any, S any](a []T, f func(T) S, numRoutines int) []S {
	in := make(chan elt[T])
	simrt.Go(1, func() {
		defer simrt.Close(2, in)
		for i, x := range a {
			simrt.Send(3, in, elt[T]{i, x})
		}
	})
	out := make(chan elt[S])
	wg := &sync.WaitGroup{}
	if numRoutines <= 0 {
		numRoutines = 1
	}
	simrt.WgAdd(4, wg, numRoutines)
	for i := 0; i < numRoutines; i++ {
		simrt.Go(5, func() {
			defer simrt.WgDone(6, wg)
			for x := range simrt.RangeChan(7, in) {
				simrt.Send(8, out, elt[S]{x.idx, f(x.x)})
			}
		})
	}
	simrt.Go(9, func() {
		simrt.WgWait(10, wg)
		simrt.Close(11, out)
	})
	xs := make([]elt[S], 0, len(out))
	for x := range simrt.RangeChan(12, out) {
		xs = append(xs, x)
	}
	res := make([]S, len(xs))
	for _, x := range xs {
		res[x.idx] = x.x
	}
	return res
}

func tape(seed uint64, n int) []uint32 {
	t := make([]uint32, n)
	x := seed
	for i := range t {
		x = x*6364136223846793005 + 1442695040888963407
		t[i] = uint32(x >> 33)
	}
	return t
}

var racyCounter int
var racyMap = map[int]int{}
var guarded int
var guardMu sync.Mutex

func main() {
	mode := flag.String("mode", "clean", "clean|racy|deadlock|leak")
	seeds := flag.Int("seeds", 100, "")
	base := flag.Uint64("base", 1, "")
	flag.Parse()
	enc := json.NewEncoder(os.Stdout)
	for i := 0; i < *seeds; i++ {
		seed := *base + uint64(i)
		p := simrt.Params{Tape: tape(seed, 4000), MaxSteps: 100000, MapPermPct: 100, MapSalt: uint32(seed)}
		if seed%4 == 3 {
			p.PrioSalt = uint32(seed) | 1
			for j := range p.Tape {
				if j%17 != 0 {
					p.Tape[j] = 0
				}
			}
		}
		var got []int
		var order []int
		res := simrt.Run(p, func() {
			switch *mode {
			case "clean":
				a := make([]int, int(seed%23))
				for j := range a {
					a[j] = j
				}
				got = mapParallel(a, func(x int) int {
					simrt.Yield(20)
					simrt.MuLock(21, &guardMu)
					guarded++
					simrt.MuUnlock(22, &guardMu)
					return x * x
				}, int(seed%7))
				m := map[string]int{"a": 1, "b": 2, "c": 3, "d": 4, "e": 5}
				for _, v := range simrt.RangeMap(30, m) {
					order = append(order, v)
				}
			case "racy":
				// two tasks that never overlap in real time and share unsynchronised state
				done := make(chan bool)
				simrt.Go(40, func() {
					racyCounter++
					racyMap[1] = 1
					simrt.Send(41, done, true)
				})
				simrt.Yield(42)
				racyCounter++
				racyMap[2] = 2
				simrt.Recv(43, done)
			case "deadlock":
				c := make(chan int)
				simrt.Go(50, func() { simrt.Recv(51, c) })
				var mu sync.Mutex
				simrt.MuLock(52, &mu)
				simrt.MuLock(53, &mu)
			case "leak":
				c := make(chan int)
				simrt.Go(60, func() { simrt.Yield(61); simrt.Yield(62); simrt.Send(63, c, 1) })
				simrt.Go(64, func() { simrt.Recv(65, c) })
			}
		})
		rec := map[string]any{"seed": seed, "res": res, "got": got, "order": order}
		if *mode == "clean" {
			ok := len(got) == int(seed%23)
			for j, v := range got {
				ok = ok && v == j*j
			}
			rec["ok"] = ok
			if !ok || res.Aborted {
				enc.Encode(rec)
				fmt.Fprintln(os.Stderr, "selftest: wrong result or aborted run")
				os.Exit(1)
			}
		}
		enc.Encode(rec)
		if res.Aborted {
			break
		}
	}
}
