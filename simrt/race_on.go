//go:build race

package simrt

import "runtime"

// RaceBuild reports whether the race detector is compiled in.
const RaceBuild = true

//go:norace
func raceDisable() { runtime.RaceDisable() }

//go:norace
func raceEnable() { runtime.RaceEnable() }
