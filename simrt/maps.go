package simrt

import (
	"fmt"
	"iter"
	"os"
	"reflect"
	"sort"
	"strconv"
	"unsafe"
)

// KeyDescriber returns a deterministic description of a map key (deterministic for a given tape and
// input, i.e. free of addresses). Describers registered by harness packages are consulted first.
type KeyDescriber func(k any) (string, bool)

var describers []KeyDescriber

// RegisterKeyDescriber adds a describer. Call from init or before the first Run only.
func RegisterKeyDescriber(d KeyDescriber) { describers = append(describers, d) }

type longIDer interface{ LongID() string }

func describe(k any) (string, bool) { return describeAt(k, 0) }

// Describe exposes the key description to describers that want to compose it.
func Describe(k any) (string, bool) { return describeAt(k, 1) }

// describeKnown handles basic kinds, registered describers and LongID carriers.
func describeKnown(k any) (string, bool) {
	switch x := k.(type) {
	case nil:
		return "<nil>", true
	case string:
		return x, true
	case int:
		return fmtInt(int64(x)), true
	case int32:
		return fmtInt(int64(x)), true
	case int64:
		return fmtInt(x), true
	case uint32:
		return fmtInt(int64(x)), true
	case uint64:
		return fmtInt(int64(x)), true
	case uint:
		return fmtInt(int64(x)), true
	case bool:
		if x {
			return "1", true
		}
		return "0", true
	}
	for _, d := range describers {
		if s, ok := d(k); ok {
			return s, true
		}
	}
	if l, ok := k.(longIDer); ok {
		if v := reflect.ValueOf(k); v.Kind() == reflect.Pointer && v.IsNil() {
			return "<nil>", true
		}
		return l.LongID(), true
	}
	return "", false
}

func describeAt(k any, depth int) (string, bool) {
	if d, ok := describeKnown(k); ok {
		return d, true
	}
	return describeReflect(reflect.ValueOf(k), depth)
}

// fmtInt gives a fixed-width, order-preserving rendering.
func fmtInt(x int64) string {
	u := uint64(x) ^ (1 << 63)
	s := strconv.FormatUint(u, 10)
	return "00000000000000000000"[:20-len(s)] + s
}

// access returns a value through which unexported fields can be read (the value must be addressable
// or already accessible).
func access(v reflect.Value) reflect.Value {
	if v.CanInterface() {
		return v
	}
	if v.CanAddr() {
		return reflect.NewAt(v.Type(), unsafe.Pointer(v.UnsafeAddr())).Elem()
	}
	return v
}

func describeFields(v reflect.Value, depth int, shallow bool) (string, bool) {
	// v is an addressable struct
	out := "{"
	all := true
	any1 := false
	for i := 0; i < v.NumField(); i++ {
		f := access(v.Field(i))
		if shallow {
			switch f.Kind() {
			case reflect.Map, reflect.Slice, reflect.Chan, reflect.Func, reflect.Struct, reflect.Array, reflect.UnsafePointer:
				continue
			}
		}
		var d string
		var ok bool
		if f.CanInterface() && f.Kind() != reflect.Struct {
			if f.Kind() == reflect.Interface && f.IsNil() {
				d, ok = "<nil>", true
			} else {
				d, ok = describeDepth(f.Interface(), depth+1)
			}
		} else {
			d, ok = describeReflect(f, depth+1)
		}
		if !ok {
			all = false
		} else {
			any1 = true
		}
		out += d + "|"
	}
	if shallow {
		return out + "}", any1
	}
	return out + "}", all
}

func describeDepth(k any, depth int) (string, bool) {
	if depth > 4 {
		return "", false
	}
	return describeAt(k, depth)
}

func describeReflect(v reflect.Value, depth int) (string, bool) {
	if !v.IsValid() {
		return "<nil>", true
	}
	if depth > 4 {
		return "", false
	}
	switch v.Kind() {
	case reflect.String:
		return v.String(), true
	case reflect.Int, reflect.Int8, reflect.Int16, reflect.Int32, reflect.Int64:
		return fmtInt(v.Int()), true
	case reflect.Uint, reflect.Uint8, reflect.Uint16, reflect.Uint32, reflect.Uint64, reflect.Uintptr:
		return fmtInt(int64(v.Uint())), true
	case reflect.Bool:
		if v.Bool() {
			return "1", true
		}
		return "0", true
	case reflect.Interface:
		if v.IsNil() {
			return "<nil>", true
		}
		if v.CanInterface() {
			return describeDepth(v.Interface(), depth+1)
		}
		return describeReflect(v.Elem(), depth+1)
	case reflect.Struct:
		c := v
		if !v.CanAddr() {
			if !v.CanInterface() {
				return v.Type().String(), false
			}
			c = reflect.New(v.Type()).Elem()
			c.Set(v)
		}
		return describeFields(c, depth, false)
	case reflect.Array:
		out := "["
		all := true
		for i := 0; i < v.Len(); i++ {
			d, ok := describeReflect(v.Index(i), depth+1)
			all = all && ok
			out += d + "|"
		}
		return out + "]", all
	case reflect.Pointer:
		if v.IsNil() {
			return "<nil>", true
		}
		if v.CanInterface() {
			if d, ok := describeKnown(v.Interface()); ok {
				return d, true
			}
			if st, ok := v.Interface().(fmt.Stringer); ok {
				return v.Type().String() + ":" + safeString(st), true
			}
		}
		e := v.Elem()
		if e.Kind() == reflect.Struct {
			for _, name := range []string{"number", "id", "ID", "Id", "index"} {
				f := e.FieldByName(name)
				if f.IsValid() {
					switch f.Kind() {
					case reflect.Int, reflect.Int32, reflect.Int64:
						return v.Type().String() + "#" + fmtInt(f.Int()), true
					case reflect.Uint, reflect.Uint32, reflect.Uint64:
						return v.Type().String() + "#" + fmtInt(int64(f.Uint())), true
					}
				}
			}
			d, ok := describeFields(e, depth, true)
			return v.Type().String() + d, ok
		}
		return v.Type().String(), false
	}
	if v.CanInterface() {
		if st, ok := v.Interface().(fmt.Stringer); ok {
			return v.Type().String() + ":" + safeString(st), true
		}
	}
	return v.Type().String(), false
}

func safeString(st fmt.Stringer) (out string) {
	defer func() {
		if recover() != nil {
			out = "<panic>"
		}
	}()
	return st.String()
}

// descriptor caches, one per task: a cache is only ever touched by its own goroutine, so it needs (and
// creates) no synchronisation.
var caches [maxTasks]map[any]string

//go:norace
func taskCache() map[any]string {
	if !s.active || s.current < 0 {
		return nil
	}
	c := caches[s.current]
	if c == nil {
		c = make(map[any]string)
		caches[s.current] = c
	}
	return c
}

//go:norace
func resetCaches() {
	for i := range caches {
		caches[i] = nil
	}
}

var debugTies = os.Getenv("SIMRT_DEBUG_TIES") != ""

type keyed[K any] struct {
	k K
	d string
}

//go:norace
func mapSiteInfo(site int, n int) (permute bool, yield bool, seed uint32) {
	if !s.active || s.quiet {
		return false, false, 0
	}
	lock()
	s.mapCalls++
	if n >= 2 {
		s.mapMulti++
		if s.p.MapPermPct > 0 && int(mix(uint64(site)<<32|uint64(s.p.MapSalt))%100) < s.p.MapPermPct {
			permute = true
			seed = nextTape()
			if seed != 0 {
				s.mapPermuted++
				s.mapFP = (s.mapFP ^ uint64(site)) * 1099511628211
				s.mapFP = (s.mapFP ^ uint64(seed)) * 1099511628211
				s.mapFP = (s.mapFP ^ uint64(n)) * 1099511628211
			}
		}
	}
	if n >= 1 && s.p.RangeYieldPct > 0 && int(mix(uint64(site)<<32|uint64(s.p.MapSalt)^0x5555)%100) < s.p.RangeYieldPct {
		yield = true
	}
	unlock()
	return
}

//go:norace
func countTies(n int) {
	lock()
	s.keyTie += n
	unlock()
}

func shuffle[K any](ks []keyed[K], seed uint32) {
	x := uint64(seed)
	for i := len(ks) - 1; i > 0; i-- {
		x = mix(x)
		j := int(x % uint64(i+1))
		ks[i], ks[j] = ks[j], ks[i]
	}
}

// RangeMap replaces `range m` for a map m: the keys are snapshotted, put in a canonical order and then,
// at sites selected for this run, permuted by a tape value. Conforms to the language: entries removed
// before they are reached are not produced, entries added during the iteration are not produced.
func RangeMap[M ~map[K]V, K comparable, V any](site int, m M) iter.Seq2[K, V] {
	return func(yield func(K, V) bool) {
		n := len(m)
		if n == 0 {
			return
		}
		if n == 1 {
			// nothing to order
			_, yieldEach, _ := mapSiteInfo(site, 1)
			for k, v := range m {
				if yieldEach {
					Yield(site)
					if _, ok := m[k]; !ok {
						return
					}
				}
				yield(k, v)
				return
			}
			return
		}
		ks := make([]keyed[K], 0, n)
		ties := 0
		cache := taskCache()
		for k := range m {
			var d string
			var ok bool
			if cache != nil {
				if d, ok = cache[any(k)]; !ok {
					d, ok = describe(any(k))
					if ok {
						cache[any(k)] = d
					}
				}
			} else {
				d, ok = describe(any(k))
			}
			if !ok {
				ties++
				if debugTies {
					fmt.Fprintf(os.Stderr, "simrt: undescribed key at site %d: %T %s\n", site, k, d)
				}
			}
			ks = append(ks, keyed[K]{k, d})
		}
		if n > 1 {
			sort.SliceStable(ks, func(i, j int) bool { return ks[i].d < ks[j].d })
			for i := 1; i < len(ks); i++ {
				if ks[i].d == ks[i-1].d {
					ties++
					if debugTies {
						fmt.Fprintf(os.Stderr, "simrt: equal key descriptions at site %d: %T %s\n", site, ks[i].k, ks[i].d)
					}
				}
			}
		}
		permute, yieldEach, seed := mapSiteInfo(site, n)
		if debugTies && permute {
			fmt.Fprintf(os.Stderr, "MAPFP site=%d n=%d seed=%d\n", site, n, seed)
		}
		if ties > 0 && n > 1 {
			countTies(ties)
		}
		if permute && seed != 0 {
			shuffle(ks, seed)
		}
		for _, e := range ks {
			v, ok := m[e.k]
			if !ok {
				continue
			}
			if yieldEach {
				Yield(site)
			}
			if !yield(e.k, v) {
				return
			}
		}
	}
}

//go:norace
func pickInfo(site int, n int) (permute bool, v uint32) {
	if !s.active {
		return false, 0
	}
	lock()
	s.picks++
	if n >= 2 && s.p.WorklistPermPct > 0 && int(mix(uint64(site)<<32|uint64(s.p.MapSalt)^0xabcd)%100) < s.p.WorklistPermPct {
		permute = true
		v = nextTape()
		if v != 0 {
			s.picksPermuted++
			s.mapFP = (s.mapFP ^ uint64(site)) * 1099511628211
			s.mapFP = (s.mapFP ^ uint64(v)) * 1099511628211
		}
	}
	unlock()
	return
}

// Pick is the work-queue seam: given n candidates and the index def the code would take today, it
// returns the index to take. Tape value 0 keeps today's choice.
func Pick(site int, n int, def int) int {
	if n <= 1 {
		return def
	}
	permute, v := pickInfo(site, n)
	if !permute || v == 0 {
		return def
	}
	return int(v % uint32(n))
}
