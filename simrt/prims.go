package simrt

import (
	"iter"
	"sync"
	"unsafe"
)

//go:norace
func chanPtr[C any](ch C) unsafe.Pointer {
	return *(*unsafe.Pointer)(unsafe.Pointer(&ch))
}

//go:norace
func chanRequest(kind int32, site int, ptr unsafe.Pointer, capacity int) (*task, bool) {
	lock()
	pr := findPrim(ptr, pChan, int32(capacity))
	rendezvous := pr >= 0 && s.prims[pr].cap == 0
	unlock()
	t := request(kind, int32(site), pr)
	// a receive from / send on a closed channel is a single action even when unbuffered
	if rendezvous {
		lock()
		rendezvous = s.current < 0
		unlock()
	}
	return t, rendezvous
}

// Send replaces ch <- v.
func Send[T any](site int, ch chan<- T, v T) {
	if !Active() {
		ch <- v
		return
	}
	t, rv := chanRequest(rSend, site, chanPtr(ch), cap(ch))
	ch <- v
	if rv {
		post(t)
	}
}

// Recv replaces <-ch.
func Recv[T any](site int, ch <-chan T) T {
	if !Active() {
		return <-ch
	}
	t, rv := chanRequest(rRecv, site, chanPtr(ch), cap(ch))
	v := <-ch
	if rv {
		post(t)
	}
	return v
}

// Recv2 replaces v, ok := <-ch.
func Recv2[T any](site int, ch <-chan T) (T, bool) {
	if !Active() {
		v, ok := <-ch
		return v, ok
	}
	t, rv := chanRequest(rRecv, site, chanPtr(ch), cap(ch))
	v, ok := <-ch
	if rv {
		post(t)
	}
	return v, ok
}

// RangeChan replaces range ch.
func RangeChan[T any](site int, ch <-chan T) iter.Seq[T] {
	return func(yield func(T) bool) {
		for {
			v, ok := Recv2(site, ch)
			if !ok {
				return
			}
			if !yield(v) {
				return
			}
		}
	}
}

//go:norace
func markClosed(ptr unsafe.Pointer, capacity int) {
	lock()
	pr := findPrim(ptr, pChan, int32(capacity))
	if pr >= 0 {
		s.prims[pr].closed = true
	}
	unlock()
}

// Close replaces close(ch).
func Close[T any](site int, ch chan<- T) {
	if !Active() {
		close(ch)
		return
	}
	Yield(site)
	close(ch) // panics natively on a closed or nil channel, like the original
	markClosed(chanPtr(ch), cap(ch))
}

//go:norace
func primRequest(kind int32, site int, ptr unsafe.Pointer, pk int32) {
	lock()
	pr := findPrim(ptr, pk, 0)
	unlock()
	request(kind, int32(site), pr)
}

//go:norace
func primUpdate(ptr unsafe.Pointer, pk int32, f int32, delta int32) {
	lock()
	pr := findPrim(ptr, pk, 0)
	p := &s.prims[pr]
	switch f {
	case 0:
		p.locked = false
	case 1:
		p.readers += delta
	case 2:
		p.counter += delta
	case 3:
		p.once = 2
	}
	unlock()
}

// MuLock replaces (*sync.Mutex).Lock.
func MuLock(site int, mu *sync.Mutex) {
	if !Active() {
		mu.Lock()
		return
	}
	primRequest(rLock, site, unsafe.Pointer(mu), pMutex)
	mu.Lock()
}

// MuUnlock replaces (*sync.Mutex).Unlock.
func MuUnlock(site int, mu *sync.Mutex) {
	if !Active() {
		mu.Unlock()
		return
	}
	mu.Unlock()
	primUpdate(unsafe.Pointer(mu), pMutex, 0, 0)
	Yield(site)
}

// MuTryLock replaces (*sync.Mutex).TryLock.
func MuTryLock(site int, mu *sync.Mutex) bool {
	if !Active() {
		return mu.TryLock()
	}
	Yield(site)
	ok := mu.TryLock()
	if ok {
		lock()
		pr := findPrim(unsafe.Pointer(mu), pMutex, 0)
		s.prims[pr].locked = true
		unlock()
	}
	return ok
}

// RWLock replaces (*sync.RWMutex).Lock.
func RWLock(site int, mu *sync.RWMutex) {
	if !Active() {
		mu.Lock()
		return
	}
	primRequest(rLock, site, unsafe.Pointer(mu), pMutex)
	mu.Lock()
}

// RWUnlock replaces (*sync.RWMutex).Unlock.
func RWUnlock(site int, mu *sync.RWMutex) {
	if !Active() {
		mu.Unlock()
		return
	}
	mu.Unlock()
	primUpdate(unsafe.Pointer(mu), pMutex, 0, 0)
	Yield(site)
}

// RWRLock replaces (*sync.RWMutex).RLock.
func RWRLock(site int, mu *sync.RWMutex) {
	if !Active() {
		mu.RLock()
		return
	}
	primRequest(rRLock, site, unsafe.Pointer(mu), pMutex)
	mu.RLock()
}

// RWRUnlock replaces (*sync.RWMutex).RUnlock.
func RWRUnlock(site int, mu *sync.RWMutex) {
	if !Active() {
		mu.RUnlock()
		return
	}
	mu.RUnlock()
	primUpdate(unsafe.Pointer(mu), pMutex, 1, -1)
	Yield(site)
}

// WgAdd replaces (*sync.WaitGroup).Add.
func WgAdd(site int, wg *sync.WaitGroup, n int) {
	if !Active() {
		wg.Add(n)
		return
	}
	Yield(site)
	wg.Add(n)
	primUpdate(unsafe.Pointer(wg), pWg, 2, int32(n))
}

// WgDone replaces (*sync.WaitGroup).Done.
func WgDone(site int, wg *sync.WaitGroup) { WgAdd(site, wg, -1) }

// WgWait replaces (*sync.WaitGroup).Wait.
func WgWait(site int, wg *sync.WaitGroup) {
	if !Active() {
		wg.Wait()
		return
	}
	primRequest(rWait, site, unsafe.Pointer(wg), pWg)
	wg.Wait()
}

// OnceDo replaces (*sync.Once).Do.
func OnceDo(site int, o *sync.Once, f func()) {
	if !Active() {
		o.Do(f)
		return
	}
	primRequest(rOnce, site, unsafe.Pointer(o), pOnce)
	defer primUpdate(unsafe.Pointer(o), pOnce, 3, 0)
	o.Do(f)
}


//go:norace
func selectRequest(site int, ptrs [4]unsafe.Pointer, caps [4]int, n int) int {
	lock()
	var prs [4]int32
	for i := 0; i < n; i++ {
		prs[i] = findPrim(ptrs[i], pChan, int32(caps[i]))
	}
	if s.current < 0 {
		unlock()
		panic("simrt: select from a goroutine that does not hold the baton")
	}
	t := s.tasks[s.current]
	t.sel = prs
	t.nsel = int32(n)
	unlock()
	request(rSelect, int32(site), -1)
	return int(t.selChoice)
}

// SelectRecv2 replaces a select statement with two receive cases (buffered channels): it returns the index of the
// case taken and the received value in the slot of that case.
func SelectRecv2[A, B any](site int, ca <-chan A, cb <-chan B) (idx int, va A, vb B) {
	if !Active() {
		select {
		case va = <-ca:
			return 0, va, vb
		case vb = <-cb:
			return 1, va, vb
		}
	}
	c := selectRequest(site, [4]unsafe.Pointer{chanPtr(ca), chanPtr(cb)}, [4]int{cap(ca), cap(cb)}, 2)
	if c == 0 {
		va = <-ca
	} else {
		vb = <-cb
	}
	return c, va, vb
}
