// Package simb is the runtime side of system B: generated concurrent programs executed natively under simrt.
// The executed variant of a generated program calls into this package on the same source lines on which the
// analysed variant has its plain statements.
package simb

import (
	"encoding/json"
	"fmt"
	"os"
	"reflect"
	"strings"
	"unsafe"

	"simrt"
)

// Flow is a (source line, sink line) pair whose token was observed at a sink.
type Flow struct {
	Source int `json:"source"`
	Sink   int `json:"sink"`
	Task   int `json:"task"`
	Step   int `json:"step"`
}

// Access is one logged memory access.
type Access struct {
	Line  int     `json:"line"`
	Obj   uintptr `json:"obj"`
	Task  int     `json:"task"`
	Step  int     `json:"step"`
	Write int     `json:"w"`
}

// Launch records that the goroutine started at a go statement began executing its entry function.
type Launch struct {
	GoLine int    `json:"go_line"`
	Entry  string `json:"entry"`
	Task   int    `json:"task"`
}

// Config is read from the file named by SIMB_JOB.
type Config struct {
	Params    simrt.Params `json:"params"`
	Sinks     bool         `json:"sinks"`
	AccessLog bool         `json:"access_log"`
	Out       string       `json:"out"`
}

// Result is written to Config.Out.
type Result struct {
	Sim      simrt.Result `json:"sim"`
	Flows    []Flow       `json:"flows"`
	Accesses []Access     `json:"accesses,omitempty"`
	Launches []Launch     `json:"launches,omitempty"`
	SinkHits int          `json:"sink_hits"`
	Sources  int          `json:"sources"`
}

// All recording state is touched only by the task holding the baton; it lives in norace accessors so
// that the race detector sees the program's accesses only.
var rec struct {
	cfg      Config
	flows    []Flow
	accesses []Access
	launches []Launch
	sinkHits int
	sources  int
}

const tokOpen, tokClose = "⟦", "⟧"

// Src returns a fresh tainted string carrying the source line.
//
//go:norace
func Src(line int) string {
	rec.sources++
	return fmt.Sprintf("%sS%d%s", tokOpen, line, tokClose)
}

//go:norace
func addFlow(src, sink int) {
	// linear scan on purpose: a Go map here would be written by several goroutines and show up as a race
	for _, f := range rec.flows {
		if f.Source == src && f.Sink == sink {
			return
		}
	}
	rec.flows = append(rec.flows, Flow{src, sink, simrt.CurrentTask(), simrt.Steps()})
}

//go:norace
func scanString(s string, sink int) {
	for {
		i := strings.Index(s, tokOpen+"S")
		if i < 0 {
			return
		}
		s = s[i+len(tokOpen)+1:]
		j := strings.Index(s, tokClose)
		if j < 0 {
			return
		}
		n := 0
		ok := j > 0
		for _, c := range s[:j] {
			if c < '0' || c > '9' {
				ok = false
				break
			}
			n = n*10 + int(c-'0')
		}
		if ok {
			addFlow(n, sink)
		}
		s = s[j:]
	}
}

//go:norace
func walk(v reflect.Value, sink int, depth int, visited map[uintptr]bool) {
	if !v.IsValid() || depth > 12 {
		return
	}
	switch v.Kind() {
	case reflect.String:
		scanString(v.String(), sink)
	case reflect.Pointer:
		if v.IsNil() {
			return
		}
		p := v.Pointer()
		if visited[p] {
			return
		}
		visited[p] = true
		walk(v.Elem(), sink, depth+1, visited)
	case reflect.Interface:
		if !v.IsNil() {
			walk(v.Elem(), sink, depth+1, visited)
		}
	case reflect.Struct:
		for i := 0; i < v.NumField(); i++ {
			f := v.Field(i)
			if !f.CanInterface() && f.CanAddr() {
				f = reflect.NewAt(f.Type(), unsafe.Pointer(f.UnsafeAddr())).Elem()
			}
			walk(f, sink, depth+1, visited)
		}
	case reflect.Slice, reflect.Array:
		if v.Kind() == reflect.Slice && v.IsNil() {
			return
		}
		for i := 0; i < v.Len() && i < 64; i++ {
			walk(v.Index(i), sink, depth+1, visited)
		}
	case reflect.Map:
		if v.IsNil() {
			return
		}
		it := v.MapRange()
		for it.Next() {
			walk(it.Key(), sink, depth+1, visited)
			walk(it.Value(), sink, depth+1, visited)
		}
	}
}

// Sink inspects everything reachable from the arguments for source tokens.
//
//go:norace
func Sink(line int, xs ...any) {
	if !rec.cfg.Sinks {
		return
	}
	rec.sinkHits++
	visited := map[uintptr]bool{}
	for _, x := range xs {
		walk(reflect.ValueOf(x), line, 0, visited)
	}
}

//go:norace
func objID(p any) uintptr {
	v := reflect.ValueOf(p)
	switch v.Kind() {
	case reflect.Pointer, reflect.Map, reflect.Chan, reflect.Slice, reflect.UnsafePointer, reflect.Func:
		return v.Pointer()
	}
	return 0
}

// Acc logs an access of the current task to the object p points to (pointer, map, slice or channel).
//
//go:norace
func Acc(line int, p any, write int) {
	if !rec.cfg.AccessLog {
		return
	}
	id := objID(p)
	if id == 0 {
		return
	}
	rec.accesses = append(rec.accesses, Access{line, id, simrt.CurrentTask(), simrt.Steps(), write})
}

// Enter records that a goroutine started at go statement goLine entered its entry function.
//
//go:norace
func Enter(goLine int, entry string) {
	rec.launches = append(rec.launches, Launch{goLine, entry, simrt.CurrentTask()})
}

// Fault is the fault point of generated goroutine bodies.
func Fault(site int) bool { return simrt.Fault(site) }

// Main runs the generated program's main under the simulator and writes the result.
func Main(pmain func()) {
	path := os.Getenv("SIMB_JOB")
	b, err := os.ReadFile(path)
	if err != nil {
		fmt.Fprintln(os.Stderr, "simb: cannot read job:", err)
		os.Exit(2)
	}
	if err := json.Unmarshal(b, &rec.cfg); err != nil {
		fmt.Fprintln(os.Stderr, "simb: bad job:", err)
		os.Exit(2)
	}
	rec.cfg.Params.PanicEndsProgram = true
	res := simrt.Run(rec.cfg.Params, pmain)
	out := Result{Sim: res, Flows: rec.flows, Accesses: rec.accesses, Launches: rec.launches, SinkHits: rec.sinkHits, Sources: rec.sources}
	if out.Flows == nil {
		out.Flows = []Flow{}
	}
	ob, _ := json.Marshal(out)
	if err := os.WriteFile(rec.cfg.Out, ob, 0o644); err != nil {
		fmt.Fprintln(os.Stderr, "simb:", err)
		os.Exit(2)
	}
	os.Exit(0)
}
