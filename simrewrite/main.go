// simrewrite routes the concurrency primitives, map iterations, clock and CPU-count reads of a scratch
// copy of the repository to the simrt runtime. It edits files by splicing text at token offsets, so line
// numbers of the original code are preserved (race reports and positions stay meaningful).
//
// usage: simrewrite -dir <scratch copy of /repo> -simrt <import path of simrt> -sites <out.json> pattern...
// exit 2: a construct the simulator cannot model (select, sync.Cond, timers, ...) was found.
package main

import (
	"encoding/json"
	"flag"
	"fmt"
	"go/ast"
	"go/token"
	"go/types"
	"os"
	"path/filepath"
	"sort"
	"strings"

	"golang.org/x/tools/go/packages"
)

type edit struct {
	start, end int
	text       string
	depth      int
	close      bool
	seq        int
	// argStart/argEnd: when argEnd > argStart the source text in that range is appended to text, followed by tail
	argStart, argEnd int
	tail             string
}

type site struct {
	ID   int    `json:"id"`
	Kind string `json:"kind"`
	Pos  string `json:"pos"`
	Func string `json:"func,omitempty"`
}

var (
	sites       []site
	unsupported []string
	rootDir     string
)

func newSite(kind string, fset *token.FileSet, pos token.Pos, fn string) int {
	p := fset.Position(pos)
	rel, err := filepath.Rel(rootDir, p.Filename)
	if err != nil {
		rel = p.Filename
	}
	id := len(sites) + 1000
	sites = append(sites, site{ID: id, Kind: kind, Pos: fmt.Sprintf("%s:%d:%d", rel, p.Line, p.Column), Func: fn})
	return id
}

type fileRewriter struct {
	fset    *token.FileSet
	file    *ast.File
	tf      *token.File
	info    *types.Info
	edits   []edit
	seq     int
	guards  map[string]string // package local name -> member to reference in a guard
	stack   []ast.Node
	changed bool
	fn      string
}

func (r *fileRewriter) off(p token.Pos) int { return r.tf.Offset(p) }

func (r *fileRewriter) insert(p token.Pos, text string, close bool) {
	r.seq++
	r.edits = append(r.edits, edit{start: r.off(p), end: r.off(p), text: text, depth: len(r.stack), close: close, seq: r.seq})
	r.changed = true
}

func (r *fileRewriter) replace(from, to token.Pos, text string) {
	r.seq++
	r.edits = append(r.edits, edit{start: r.off(from), end: r.off(to), text: text, depth: len(r.stack), seq: r.seq})
	r.changed = true
}

func (r *fileRewriter) unsupported(n ast.Node, what string) {
	unsupported = append(unsupported, fmt.Sprintf("%s: %s", r.fset.Position(n.Pos()), what))
}

func (r *fileRewriter) site(kind string, pos token.Pos) int {
	return newSite(kind, r.fset, pos, r.fn)
}

func isMap(t types.Type) bool {
	if t == nil {
		return false
	}
	if tp, ok := t.(*types.TypeParam); ok {
		_ = tp
		return false
	}
	_, ok := t.Underlying().(*types.Map)
	return ok
}

func isChan(t types.Type) bool {
	if t == nil {
		return false
	}
	_, ok := t.Underlying().(*types.Chan)
	return ok
}

// enclosingStmtPos returns the position of the innermost statement that is a direct element of a
// statement list and encloses the current node without crossing a function literal.
// enclosingStmtEnd is enclosingStmtPos for the end of that statement.
func (r *fileRewriter) enclosingStmtEnd() (token.Pos, bool) {
	for i := len(r.stack) - 1; i > 0; i-- {
		n := r.stack[i]
		if _, ok := n.(*ast.FuncLit); ok {
			return token.NoPos, false
		}
		st, ok := n.(ast.Stmt)
		if !ok {
			continue
		}
		if _, ok := r.stack[i-1].(*ast.BlockStmt); ok {
			switch st.(type) {
			case *ast.AssignStmt, *ast.ExprStmt:
				return st.End(), true
			}
			return token.NoPos, false
		}
	}
	return token.NoPos, false
}

func (r *fileRewriter) enclosingStmtPos() (token.Pos, bool) {
	for i := len(r.stack) - 1; i > 0; i-- {
		n := r.stack[i]
		if _, ok := n.(*ast.FuncLit); ok {
			return token.NoPos, false
		}
		st, ok := n.(ast.Stmt)
		if !ok {
			continue
		}
		switch parent := r.stack[i-1].(type) {
		case *ast.BlockStmt:
			return st.Pos(), true
		case *ast.CaseClause:
			for _, b := range parent.Body {
				if b == st {
					return st.Pos(), true
				}
			}
		case *ast.CommClause:
			for _, b := range parent.Body {
				if b == st {
					return st.Pos(), true
				}
			}
		case *ast.LabeledStmt:
			continue
		}
	}
	return token.NoPos, false
}

func (r *fileRewriter) calleeFunc(call *ast.CallExpr) *types.Func {
	switch f := ast.Unparen(call.Fun).(type) {
	case *ast.SelectorExpr:
		if sel, ok := r.info.Selections[f]; ok {
			if fn, ok := sel.Obj().(*types.Func); ok {
				return fn
			}
			return nil
		}
		if fn, ok := r.info.Uses[f.Sel].(*types.Func); ok {
			return fn
		}
	case *ast.Ident:
		if fn, ok := r.info.Uses[f].(*types.Func); ok {
			return fn
		}
	case *ast.IndexExpr:
		if id, ok := f.X.(*ast.SelectorExpr); ok {
			if fn, ok := r.info.Uses[id.Sel].(*types.Func); ok {
				return fn
			}
		}
	}
	return nil
}

var syncMethods = map[string]string{
	"(*sync.Mutex).Lock":      "MuLock",
	"(*sync.Mutex).Unlock":    "MuUnlock",
	"(*sync.Mutex).TryLock":   "MuTryLock",
	"(*sync.RWMutex).Lock":    "RWLock",
	"(*sync.RWMutex).Unlock":  "RWUnlock",
	"(*sync.RWMutex).RLock":   "RWRLock",
	"(*sync.RWMutex).RUnlock": "RWRUnlock",
	"(*sync.WaitGroup).Add":   "WgAdd",
	"(*sync.WaitGroup).Done":  "WgDone",
	"(*sync.WaitGroup).Wait":  "WgWait",
	"(*sync.Once).Do":         "OnceDo",
}

var unsupportedFuncs = map[string]bool{
	"(*sync.Cond).Wait": true, "(*sync.Cond).Signal": true, "(*sync.Cond).Broadcast": true,
	"(*sync.RWMutex).TryLock": true, "(*sync.RWMutex).TryRLock": true, "(*sync.RWMutex).RLocker": true,
	"time.Sleep": true, "time.After": true, "time.NewTimer": true, "time.NewTicker": true, "time.Tick": true,
	"time.AfterFunc": true, "context.WithTimeout": true, "context.WithDeadline": true,
	"sync.OnceFunc": true, "sync.OnceValue": true, "sync.OnceValues": true,
}

func (r *fileRewriter) guard(pkgLocal, member string) {
	if r.guards == nil {
		r.guards = map[string]string{}
	}
	r.guards[pkgLocal] = member
}

func (r *fileRewriter) visitCall(call *ast.CallExpr) {
	// close(ch)
	if id, ok := ast.Unparen(call.Fun).(*ast.Ident); ok && id.Name == "close" {
		if _, isBuiltin := r.info.Uses[id].(*types.Builtin); isBuiltin && len(call.Args) == 1 {
			n := r.site("close", call.Pos())
			r.replace(id.Pos(), id.End(), "simrt.Close")
			r.insert(call.Lparen+1, fmt.Sprintf("%d, ", n), false)
			return
		}
	}
	fn := r.calleeFunc(call)
	if fn == nil || fn.Pkg() == nil {
		return
	}
	full := fn.FullName()
	if strings.HasSuffix(full, "/analysis/dataflow.RunIntraProcedural") && len(call.Args) >= 1 {
		// observation point after every (on-demand or eager) construction of a function summary
		if end, ok := r.enclosingStmtEnd(); ok {
			n := r.site("hook-after-summary", call.Pos())
			r.seq++
			r.edits = append(r.edits, edit{start: r.off(end), end: r.off(end), text: fmt.Sprintf("; simrt.Hook(%d, ", n),
				depth: len(r.stack), close: true, seq: r.seq, argStart: r.off(call.Args[0].Pos()), argEnd: r.off(call.Args[0].End()), tail: ")"})
			r.changed = true
		}
	}
	if unsupportedFuncs[full] {
		r.unsupported(call, "call to "+full+" cannot be modelled")
		return
	}
	selExpr, _ := ast.Unparen(call.Fun).(*ast.SelectorExpr)
	if name, ok := syncMethods[full]; ok && selExpr != nil {
		sel := r.info.Selections[selExpr]
		if sel == nil || sel.Kind() != types.MethodVal {
			r.unsupported(call, "method expression of "+full)
			return
		}
		// receiver expression, with implicit embedded fields made explicit
		recvType := r.info.TypeOf(selExpr.X)
		path := ""
		t := recvType
		idx := sel.Index()
		for _, i := range idx[:len(idx)-1] {
			if p, ok := t.Underlying().(*types.Pointer); ok {
				t = p.Elem()
			}
			st, ok := t.Underlying().(*types.Struct)
			if !ok {
				r.unsupported(call, "cannot resolve embedded receiver of "+full)
				return
			}
			path += "." + st.Field(i).Name()
			t = st.Field(i).Type()
		}
		_, isPtr := t.Underlying().(*types.Pointer)
		n := r.site(name, call.Pos())
		open := fmt.Sprintf("simrt.%s(%d, ", name, n)
		if !isPtr {
			open += "&"
		}
		open += "("
		r.insert(selExpr.X.Pos(), open, false)
		closeText := ")" + path
		if len(call.Args) > 0 {
			closeText += ", "
		}
		r.replace(selExpr.X.End(), call.Lparen+1, closeText)
		return
	}
	pkg := fn.Pkg().Path()
	recv := fn.Type().(*types.Signature).Recv()
	// package-level replacements
	if recv == nil && selExpr != nil {
		if pn, ok := r.info.Uses[identOf(selExpr.X)].(*types.PkgName); ok {
			switch full {
			case "runtime.NumCPU":
				r.replace(selExpr.Pos(), selExpr.End(), "simrt.NumCPU")
				r.guard(pn.Name(), "NumCPU")
				return
			case "time.Now":
				r.replace(selExpr.Pos(), selExpr.End(), "simrt.Now")
				r.guard(pn.Name(), "Now")
				return
			case "time.Since":
				r.replace(selExpr.Pos(), selExpr.End(), "simrt.Since")
				r.guard(pn.Name(), "Since")
				return
			}
		}
	}
	yieldKind := ""
	switch {
	case pkg == "sync/atomic":
		yieldKind = "atomic"
	case pkg == "sync" && recv != nil:
		// sync.Map, sync.Pool: internally synchronised, never block
		yieldKind = "syncobj"
	case pkg == "os" && recv != nil && strings.HasPrefix(full, "(*os.File)."):
		switch fn.Name() {
		case "Write", "WriteString", "Close", "Sync", "WriteAt":
			yieldKind = "file"
		}
	case full == "os.CreateTemp" || full == "os.Create" || full == "os.OpenFile":
		yieldKind = "file"
	}
	if yieldKind == "" {
		return
	}
	sig := fn.Type().(*types.Signature)
	// deferred calls: the yield would run at defer time, not at call time; leave them alone
	if len(r.stack) >= 2 {
		switch r.stack[len(r.stack)-2].(type) {
		case *ast.DeferStmt, *ast.GoStmt:
			return
		}
	}
	if sig.Results().Len() == 1 {
		n := r.site(yieldKind, call.Pos())
		r.insert(call.Pos(), fmt.Sprintf("simrt.After(simrt.Y(%d), ", n), false)
		r.insert(call.End(), ")", true)
		return
	}
	if pos, ok := r.enclosingStmtPos(); ok {
		n := r.site(yieldKind, call.Pos())
		r.insert(pos, fmt.Sprintf("simrt.Yield(%d); ", n), false)
	}
}

func identOf(e ast.Expr) *ast.Ident {
	id, _ := ast.Unparen(e).(*ast.Ident)
	return id
}

func (r *fileRewriter) visit(n ast.Node) bool {
	switch x := n.(type) {
	case *ast.FuncDecl:
		r.fn = x.Name.Name
		if x.Recv != nil && len(x.Recv.List) == 1 {
			r.fn = types.ExprString(x.Recv.List[0].Type) + "." + x.Name.Name
		}
	case *ast.SelectStmt:
		if len(x.Body.List) > 0 {
			r.unsupported(x, "select statement")
		}
	case *ast.GoStmt:
		call := x.Call
		sig, _ := r.info.TypeOf(call.Fun).Underlying().(*types.Signature)
		if sig == nil || sig.Results().Len() != 0 || sig.Variadic() || len(call.Args) > 6 || call.Ellipsis.IsValid() {
			r.unsupported(x, "go statement with results, variadic callee or more than 6 arguments")
			return true
		}
		n := r.site("go", x.Pos())
		r.replace(x.Go, x.Go+2, fmt.Sprintf("simrt.Go%d(%d,", len(call.Args), n))
		if len(call.Args) == 0 {
			r.replace(call.Lparen, call.Rparen+1, ")")
		} else {
			r.replace(call.Lparen, call.Lparen+1, ", ")
		}
	case *ast.SendStmt:
		n := r.site("send", x.Pos())
		r.insert(x.Pos(), fmt.Sprintf("simrt.Send(%d, ", n), false)
		r.replace(x.Arrow, x.Arrow+2, ", ")
		r.insert(x.End(), ")", true)
	case *ast.UnaryExpr:
		if x.Op == token.ARROW {
			name := "Recv"
			if len(r.stack) >= 2 {
				switch p := r.stack[len(r.stack)-2].(type) {
				case *ast.AssignStmt:
					if len(p.Lhs) == 2 && len(p.Rhs) == 1 && p.Rhs[0] == x {
						name = "Recv2"
					}
				case *ast.ValueSpec:
					if len(p.Names) == 2 && len(p.Values) == 1 && p.Values[0] == x {
						name = "Recv2"
					}
				}
			}
			n := r.site("recv", x.Pos())
			r.replace(x.OpPos, x.OpPos+2, fmt.Sprintf("simrt.%s(%d, ", name, n))
			r.insert(x.End(), ")", true)
		}
	case *ast.RangeStmt:
		t := r.info.TypeOf(x.X)
		if isMap(t) {
			n := r.site("rangemap", x.X.Pos())
			r.insert(x.X.Pos(), fmt.Sprintf("simrt.RangeMap(%d, ", n), false)
			r.insert(x.X.End(), ")", true)
		} else if isChan(t) {
			n := r.site("rangechan", x.X.Pos())
			r.insert(x.X.Pos(), fmt.Sprintf("simrt.RangeChan(%d, ", n), false)
			r.insert(x.X.End(), ")", true)
		}
	case *ast.CallExpr:
		r.visitCall(x)
	case *ast.SelectorExpr:
		// method values of sync primitives escape the model
		if sel, ok := r.info.Selections[x]; ok && sel.Kind() == types.MethodVal {
			if fn, ok := sel.Obj().(*types.Func); ok {
				if _, modelled := syncMethods[fn.FullName()]; modelled {
					isCallee := false
					if len(r.stack) >= 2 {
						if c, ok := r.stack[len(r.stack)-2].(*ast.CallExpr); ok && ast.Unparen(c.Fun) == x {
							isCallee = true
						}
					}
					if !isCallee {
						r.unsupported(x, "method value "+fn.FullName())
					}
				}
			}
		}
	}
	return true
}

func (r *fileRewriter) walk(n ast.Node) {
	ast.Inspect(n, func(c ast.Node) bool {
		if c == nil {
			r.stack = r.stack[:len(r.stack)-1]
			return true
		}
		r.stack = append(r.stack, c)
		return r.visit(c)
	})
}

func (r *fileRewriter) apply(src []byte, simrtPath string) []byte {
	// import and guards
	r.seq++
	r.edits = append(r.edits, edit{start: r.off(r.file.Name.End()), end: r.off(r.file.Name.End()),
		text: fmt.Sprintf("; import simrt %q", simrtPath)})
	sort.SliceStable(r.edits, func(i, j int) bool {
		a, b := r.edits[i], r.edits[j]
		if a.start != b.start {
			return a.start < b.start
		}
		// zero-width closes come before opens at the same offset; replacements in between
		if a.close != b.close {
			return a.close
		}
		if a.close {
			if a.depth != b.depth {
				return a.depth > b.depth
			}
			return a.seq > b.seq
		}
		if a.depth != b.depth {
			return a.depth < b.depth
		}
		return a.seq < b.seq
	})
	var out []byte
	pos := 0
	for _, e := range r.edits {
		if e.start < pos {
			fmt.Fprintf(os.Stderr, "simrewrite: overlapping edits in %s at offset %d\n", r.tf.Name(), e.start)
			os.Exit(2)
		}
		out = append(out, src[pos:e.start]...)
		out = append(out, e.text...)
		if e.argEnd > e.argStart {
			out = append(out, src[e.argStart:e.argEnd]...)
			out = append(out, e.tail...)
		}
		pos = e.end
	}
	out = append(out, src[pos:]...)
	if len(out) > 0 && out[len(out)-1] != '\n' {
		out = append(out, '\n')
	}
	names := make([]string, 0, len(r.guards))
	for k := range r.guards {
		names = append(names, k)
	}
	sort.Strings(names)
	for _, k := range names {
		out = append(out, fmt.Sprintf("var _ = %s.%s\n", k, r.guards[k])...)
	}
	return out
}

func main() {
	dir := flag.String("dir", "", "scratch copy of the repository")
	simrtPath := flag.String("simrt", "github.com/awslabs/ar-go-tools/internal/zzverif/simrt", "import path of simrt")
	sitesOut := flag.String("sites", "", "write the site table here")
	skip := flag.String("skip", "internal/zzverif", "comma separated path fragments of packages to leave alone")
	flag.Parse()
	if *dir == "" || flag.NArg() == 0 {
		fmt.Fprintln(os.Stderr, "usage: simrewrite -dir D pattern...")
		os.Exit(2)
	}
	abs, _ := filepath.Abs(*dir)
	rootDir = abs
	cfg := &packages.Config{
		Mode: packages.NeedName | packages.NeedFiles | packages.NeedCompiledGoFiles | packages.NeedSyntax |
			packages.NeedTypes | packages.NeedTypesInfo | packages.NeedImports | packages.NeedDeps,
		Dir:        abs,
		Tests:      false,
		BuildFlags: []string{"-tags=verif"},
	}
	pkgs, err := packages.Load(cfg, flag.Args()...)
	if err != nil {
		fmt.Fprintln(os.Stderr, "simrewrite: load:", err)
		os.Exit(2)
	}
	if packages.PrintErrors(pkgs) > 0 {
		os.Exit(2)
	}
	sort.Slice(pkgs, func(i, j int) bool { return pkgs[i].PkgPath < pkgs[j].PkgPath })
	skips := strings.Split(*skip, ",")
	nfiles := 0
	for _, pkg := range pkgs {
		skipIt := false
		for _, s := range skips {
			if s != "" && strings.Contains(pkg.PkgPath, s) {
				skipIt = true
			}
		}
		if skipIt {
			continue
		}
		for i, f := range pkg.Syntax {
			name := pkg.CompiledGoFiles[i]
			if !strings.HasPrefix(name, abs) || strings.HasSuffix(name, "_test.go") {
				continue
			}
			r := &fileRewriter{fset: pkg.Fset, file: f, tf: pkg.Fset.File(f.Pos()), info: pkg.TypesInfo}
			r.walk(f)
			if !r.changed {
				continue
			}
			src, err := os.ReadFile(name)
			if err != nil {
				fmt.Fprintln(os.Stderr, "simrewrite:", err)
				os.Exit(2)
			}
			out := r.apply(src, *simrtPath)
			if err := os.WriteFile(name, out, 0o644); err != nil {
				fmt.Fprintln(os.Stderr, "simrewrite:", err)
				os.Exit(2)
			}
			nfiles++
		}
	}
	if len(unsupported) > 0 {
		for _, u := range unsupported {
			fmt.Fprintln(os.Stderr, "simrewrite: unsupported:", u)
		}
		os.Exit(2)
	}
	if *sitesOut != "" {
		b, _ := json.Marshal(sites)
		if err := os.WriteFile(*sitesOut, b, 0o644); err != nil {
			fmt.Fprintln(os.Stderr, "simrewrite:", err)
			os.Exit(2)
		}
	}
	kinds := map[string]int{}
	for _, s := range sites {
		kinds[s.Kind]++
	}
	fmt.Fprintf(os.Stderr, "simrewrite: %d files, %d sites %v\n", nfiles, len(sites), kinds)
}
