"""System B: generated concurrent programs executed natively under simrt; the analyser's verdict on the clean
text is the claim under test. Checks C13, C14, C19."""
import collections
import concurrent.futures
import hashlib
import json
import os
import re
import shutil
import subprocess
import tempfile
import time

from common import (Rng, Report, build, run_jobs, run_one, log, write_evidence, make_tape, trim_tape, GOENV, VERIF,
                    scratch_root, Inconclusive, NPROC, race_reports, write_replay)
import sysa
import cgen

RULE_B = ("one case = one native execution of one generated concurrent program under one tape (schedule at statement "
          "granularity, plus an injected panic for C19). Distinct = (program text hash, schedule fingerprint) differ; "
          "non-trivial = at least two goroutines of the run touched a common object (from the access log) or, for C19, "
          "the injected panic fired.")


class ExecFarm:
    """Builds the executed variants of generated programs (one -race binary each) in a scratch module."""

    def __init__(self):
        self.dir = tempfile.mkdtemp(prefix="verif-cexec-", dir=scratch_root())
        with open(os.path.join(self.dir, "go.mod"), "w") as f:
            f.write("module cexec\n\ngo 1.23\n\nrequire simrt v0.0.0\n\nreplace simrt => %s\n" % os.path.join(VERIF, "simrt"))
        self.bins = {}

    def close(self):
        shutil.rmtree(self.dir, ignore_errors=True)

    def build_one(self, name, text):
        d = os.path.join(self.dir, name)
        os.makedirs(d, exist_ok=True)
        with open(os.path.join(d, "main.go"), "w") as f:
            f.write(text)
        out = os.path.join(d, "prog")
        p = subprocess.run(["go", "build", "-race", "-o", out, "./" + name], cwd=self.dir, env=GOENV,
                           stdout=subprocess.PIPE, stderr=subprocess.STDOUT, text=True, timeout=600)
        if p.returncode != 0:
            return name, None, p.stdout[-3000:]
        return name, out, ""

    def build_all(self, progs):
        """progs: list of generated programs (dicts with name/exec). Returns {name: binary path}; raises
        Inconclusive if a generated program does not compile (generator bug, never a verdict)."""
        # warm the build cache once so that the parallel builds share simrt/simb
        if progs:
            n, b, err = self.build_one(progs[0]["name"], progs[0]["exec"])
            if b is None:
                raise Inconclusive("generated program %s does not compile:\n%s" % (n, err))
            self.bins[n] = b
        with concurrent.futures.ThreadPoolExecutor(max_workers=NPROC) as ex:
            for n, b, err in ex.map(lambda p: self.build_one(p["name"], p["exec"]), progs[1:]):
                if b is None:
                    raise Inconclusive("generated program %s does not compile:\n%s" % (n, err))
                self.bins[n] = b
        return self.bins

    def run(self, name, params, sinks, access_log, timeout=120):
        d = os.path.join(self.dir, name)
        fd, jobf = tempfile.mkstemp(prefix="job-", suffix=".json", dir=d)
        os.close(fd)
        outf = jobf + ".out"
        racef = jobf + ".race"
        with open(jobf, "w") as f:
            json.dump({"params": sysa.strip(params), "sinks": sinks, "access_log": access_log, "out": outf}, f)
        env = dict(GOENV)
        env["SIMB_JOB"] = jobf
        env["GORACE"] = "log_path=%s halt_on_error=0 atexit_sleep_ms=0 history_size=3" % racef
        res = {"program": name}
        try:
            p = subprocess.run([self.bins[name]], env=env, stdout=subprocess.DEVNULL, stderr=subprocess.PIPE,
                               timeout=timeout)
            res["exit"] = p.returncode
            res["stderr"] = p.stderr.decode("utf-8", "replace")[-3000:]
        except subprocess.TimeoutExpired:
            res["timeout"] = True
        try:
            res.update(json.load(open(outf)))
        except (OSError, ValueError):
            res["no_output"] = True
        race = ""
        for fn in os.listdir(d):
            if fn.startswith(os.path.basename(racef)):
                try:
                    race += open(os.path.join(d, fn), errors="replace").read()
                    os.remove(os.path.join(d, fn))
                except OSError:
                    pass
        res["race"] = race
        for f in (jobf, outf):
            try:
                os.remove(f)
            except OSError:
                pass
        return res


def b_params(rng, fault_site=0, fault_at=0):
    p = {"tape": make_tape(rng, 3000, rng.pick(["uniform", "uniform", "sticky", "sparse"])), "max_steps": 200000}
    if rng.chance(25):
        p["prio_salt"] = (rng.next() & 0xFFFFFFFF) | 1
        p["tape"] = make_tape(rng, 3000, "sparse")
    if rng.chance(20):
        p["starve_task"] = rng.below(5)
        p["starve_from"] = rng.below(40)
        p["starve_len"] = 5 + rng.below(60)
    if fault_site:
        p["fault_site"], p["fault_at"] = fault_site, fault_at
    return p


def line_of(pos):
    m = re.search(r"main\.go:(\d+)", pos)
    return int(m.group(1)) if m else -1


def static_jobs(progs, kind, options):
    jobs = []
    for i, p in enumerate(progs):
        prog = {"kind": "src", "name": p["name"], "text": p["clean"], "config": cgen.CONFIG}
        j = sysa.make_job(i, kind, prog, options, sysa.base_params())
        if kind == "escape":
            j["laws"], j["mono_check"] = 0, False
        j["_prog"] = p["name"]
        jobs.append(j)
    return jobs


def shared_objects(accesses):
    """Objects touched by at least two tasks."""
    by = collections.defaultdict(set)
    for a in accesses or []:
        by[a["obj"]].add(a["task"])
    return sum(1 for ts in by.values() if len(ts) > 1)


class BStats:
    def __init__(self):
        self.runs = 0
        self.steps = 0
        self.nontrivial = set()
        self.fps = set()
        self.faults = collections.Counter()
        self.samples = []
        self.deadlocks = 0
        self.hard = collections.Counter()

    def add(self, prog, params, r, nontrivial):
        self.runs += 1
        sim = r.get("sim") or {}
        self.steps += sim.get("steps", 0)
        key = (hashlib.sha256(prog["clean"].encode()).hexdigest()[:12], sim.get("sched_fp"))
        self.fps.add(key)
        if nontrivial:
            self.nontrivial.add(key)
        if sim.get("deadlock"):
            self.deadlocks += 1
        if params.get("starve_len"):
            self.faults["stall/starvation configured"] += 1
            if sim.get("starved_decisions"):
                self.faults["stall/starvation fired (runs)"] += 1
        if params.get("fault_site"):
            self.faults["panic injection configured"] += 1
            if sim.get("faults_fired"):
                self.faults["panic injection fired"] += 1
        if len(self.samples) < 3:
            self.samples.append({"program": prog["name"], "features": prog["meta"]["features"],
                                 "workers": [(w["form"], w["defer"]) for w in prog["meta"]["workers"]],
                                 "params": {k: (v if k != "tape" else trim_tape(v)[:10]) for k, v in params.items()},
                                 "sched_fp": sim.get("sched_fp"), "steps": sim.get("steps"), "tasks": sim.get("tasks"),
                                 "flows_observed": r.get("flows"), "panics": [(p["task"], p["create_site"]) for p in sim.get("panics") or []]})

    def coverage(self, extra):
        cov = {"evaluations": self.runs, "distinct_nontrivial": len(self.nontrivial), "rule": RULE_B,
               "samples": self.samples, "steps_total": self.steps, "distinct_fingerprints": len(self.fps),
               "faults": dict(self.faults), "runs_ending_in_deadlock_of_the_generated_program": self.deadlocks,
               "runs_without_verdict": dict(self.hard),
               "real_components": ["generated programs compiled by the real compiler and executed natively (-race)",
                                   "the analyser (taint, escape, may-panic) on the clean program text, uninstrumented semantics (instrumented copy under the zero tape)"],
               "stubbed_components": ["goroutine scheduling of the generated program (simrt tape, statement granularity)",
                                      "source/sink functions (value-level sentinels)", "fault points (simrt.Fault)"],
               "simulated_time": "%d logical steps" % self.steps}
        cov.update(extra)
        return cov


def run_dynamic(farm, progs, plan, sinks, access_log):
    """plan: list of (program index, params). Returns results in order."""
    def one(item):
        pi, params = item
        return farm.run(progs[pi]["name"], params, sinks, access_log)
    with concurrent.futures.ThreadPoolExecutor(max_workers=NPROC) as ex:
        return list(ex.map(one, plan))


def hard_b(r):
    if r.get("timeout"):
        return "timeout"
    if r.get("no_output"):
        return "no output: " + (r.get("stderr") or "")[-300:]
    if (r.get("sim") or {}).get("budget"):
        return "step budget"
    return None


def minimise_b(farm, prog, params, sinks, access_log, still_fails, budget=60):
    """Shrinks the schedule of a failing execution: calm parameters first, then the shortest tape prefix, then zeroed
    blocks. Every candidate is a fresh execution; still_fails(result) decides."""
    import copy
    n = [0]

    def ok(p):
        if n[0] >= budget:
            return False
        n[0] += 1
        try:
            return bool(still_fails(farm.run(prog["name"], p, sinks, access_log)))
        except Exception:  # noqa
            return False
    cur = copy.deepcopy(sysa.strip(params))
    if not ok(cur):
        return cur, False
    for k in ("prio_salt", "starve_len"):
        if cur.get(k):
            c = dict(cur)
            c[k] = 0
            if ok(c):
                cur = c
    tape = trim_tape(cur.get("tape", []))
    c = dict(cur, tape=[])
    if ok(c):
        tape = []
    else:
        lo, hi = 0, len(tape)
        while lo + 1 < hi and n[0] < budget:
            mid = (lo + hi) // 2
            if ok(dict(cur, tape=tape[:mid])):
                hi = mid
            else:
                lo = mid
        tape = tape[:hi]
        size = max(1, len(tape) // 2)
        while size >= 1 and n[0] < budget:
            i = 0
            while i < len(tape) and n[0] < budget:
                if any(tape[i:i + size]):
                    t2 = tape[:i] + [0] * len(tape[i:i + size]) + tape[i + size:]
                    if ok(dict(cur, tape=t2)):
                        tape = t2
                i += size
            size //= 2
    cur["tape"] = trim_tape(tape)
    return cur, True


def replay_b(prop, prog, params, signature, extra=None):
    pl = {"property": prop, "harness": "cexec", "signature": signature, "program": prog["name"],
          "clean": prog["clean"], "exec": prog["exec"], "meta": prog["meta"], "params": sysa.strip(params)}
    if extra:
        pl.update(extra)
    return pl


def feature_signature(prog, what):
    return "%s {%s}" % (what, ", ".join(prog["meta"]["features"]))


# =============================================================== C13

def c13_static(binary, progs):
    jobs = static_jobs(progs, "taint", {"log-level": 1, "use-escape-analysis": True})
    res = run_jobs(binary, [{k: v for k, v in j.items() if not k.startswith("_")} for j in jobs], timeout=300)
    out = []
    for r in res:
        if r is None or sysa.classify_hard(r) or r.get("died") or r.get("panic") or (r.get("sim") or {}).get("aborted"):
            out.append(None)
            continue
        sinks = set((line_of(f.split(" -> ")[0]), line_of(f.split(" -> ")[1])) for f in r.get("flows") or [])
        esc_sources = set(line_of(e.split(" ~> ")[0]) for e in r.get("escapes") or [])
        out.append({"sinks": sinks, "escaped_sources": esc_sources, "err": r.get("err") or "",
                    "nflows": len(r.get("flows") or []), "nesc": len(r.get("escapes") or [])})
    return out


def c13_violations(static, r):
    """Observed (source, sink) pairs that are neither reported as a flow nor have their source reported as escaping."""
    out = []
    for f in r.get("flows") or []:
        pair = (f["source"], f["sink"])
        if pair in static["sinks"] or f["source"] in static["escaped_sources"]:
            continue
        out.append(pair)
    return out


def check_c13(tier, seed):
    t0 = time.time()
    rep = Report("C13")
    bdir = build()
    binary = os.path.join(bdir, "simharness-norace")
    nprog, nsched = (60, 12) if tier == "quick" else (800, 40)
    progs = [cgen.generate_mixed(seed + 13, i, faults=False) for i in range(nprog)]
    static = c13_static(binary, progs)
    st = BStats()
    buckets = collections.Counter()
    farm = ExecFarm()
    try:
        usable = [i for i, s in enumerate(static) if s is not None]
        buckets["static analysis without verdict (crash: C07 matter)"] = nprog - len(usable)
        farm.build_all([progs[i] for i in usable])
        rng = Rng(seed ^ 0xC13)
        plan = [(i, b_params(rng)) for i in usable for _ in range(nsched)]
        res = run_dynamic(farm, progs, plan, sinks=True, access_log=True)
        observed_pairs = 0
        for (pi, params), r in zip(plan, res):
            h = hard_b(r)
            if h:
                st.hard[h.split(":")[0]] += 1
                rep.inconclusive.append("%s: %s" % (progs[pi]["name"], h))
                continue
            st.add(progs[pi], params, r, shared_objects(r.get("accesses")) > 0)
            s = static[pi]
            observed_pairs += len(r.get("flows") or [])
            # generator self-check: observed sources and sinks must be lines the generator emitted as such
            for f in r.get("flows") or []:
                if f["source"] not in progs[pi]["meta"]["source_lines"] or f["sink"] not in progs[pi]["meta"]["sink_lines"]:
                    raise Inconclusive("generator self-check failed: flow %r at lines that are not source/sink in %s" % (f, progs[pi]["name"]))
            bad = c13_violations(s, r)
            if not bad:
                continue
            if s["err"]:
                # the tool fails loudly (error exit): not a *silent* miss
                buckets["missed pair while the analysis returned an error (not silent)"] += 1
                continue
            sig = "observed flow neither reported nor its source reported as escaping"
            if s["nflows"] + s["nesc"] == 0:
                sig = "flow observed while the tool reports nothing (exit status success)"
            full = feature_signature(progs[pi], sig)
            if rep.match_known(full) is None and not any(sg == full for sg, _ in rep.violations):
                params, repro = minimise_b(farm, progs[pi], params, True, True,
                                           lambda rr, ss=s: not hard_b(rr) and bool(c13_violations(ss, rr)))
            rep.violation(full, replay_b("C13", progs[pi], params, full, {"missed_pairs": bad}), "%s" % progs[pi]["name"])
        cov = st.coverage({"programs": nprog, "programs_with_static_verdict": len(usable), "schedules_per_program": nsched,
                           "observed_pairs_total": observed_pairs, "buckets": dict(buckets),
                           "programs_with_analysis_error": sum(1 for s in static if s and s["err"]),
                           "runs_per_hour": int(st.runs / max(1e-9, time.time() - t0) * 3600), "seeds": [seed]})
        write_evidence("C13", tier, seed, cov, time.time() - t0, len(rep.violations),
                       ["dynamic observation can only under-report (tokens inside closures or channels in flight are not seen)",
                        "a missed pair while taint.Analyze returns an error is not counted as silent (the CLI exits with failure)",
                        "generated programs are import-free: sharing through go arguments, captured variables, globals, fields, channels of pointers, maps and slices, interface values"])
    finally:
        farm.close()
    return rep.finish()


# =============================================================== C14

def c14_static(binary, progs):
    jobs = static_jobs(progs, "escape", {"log-level": 1})
    res = run_jobs(binary, [{k: v for k, v in j.items() if not k.startswith("_")} for j in jobs], timeout=300)
    out = []
    for r in res:
        e = (r or {}).get("escape")
        if r is None or sysa.classify_hard(r) or r.get("died") or r.get("panic") or not e or e.get("err") \
                or e.get("walk_truncated"):
            out.append(None)
            continue
        out.append({"L": set(int(k) for k, v in e["lines"].items() if v == "L"), "lines": e["lines"]})
    return out


def c14_violations(static, r):
    """(kind, line) for every access at a line claimed local that demonstrably touched shared memory."""
    out = []
    L = static["L"]
    for rr in race_reports_b(r.get("race", "")):
        # Only the later access of the pair counts: when the instruction claimed local is the earlier one, the object
        # may have been local at that time and published afterwards through a racy store, which the detector also
        # reports. This deliberately under-approximates the last clause of the property.
        if rr and rr[0] in L:
            out.append(("race in which the later access is at a line classified thread-local", rr[0]))
    # access-log oracle: shared at t iff another task accessed the same object before and after t
    acc = r.get("accesses") or []
    by = collections.defaultdict(list)
    for a in acc:
        by[a["obj"]].append(a)
    for obj, xs in by.items():
        tasks = set(a["task"] for a in xs)
        if len(tasks) < 2:
            continue
        for i, a in enumerate(xs):
            if a["line"] not in L:
                continue
            before = set(b["task"] for b in xs[:i] if b["task"] != a["task"])
            after = set(b["task"] for b in xs[i + 1:] if b["task"] != a["task"])
            if before & after:
                out.append(("access at a line classified thread-local to an object another goroutine uses before and after", a["line"]))
    return sorted(set(out))


def race_reports_b(text):
    """Lines (of main.go) of both accesses of every race report: [later access, earlier access]."""
    out = []
    for rep in text.split("WARNING: DATA RACE")[1:]:
        rep = rep.split("==================")[0]
        blocks = [b for b in re.split(r"\n\s*\n", rep) if b.strip()]
        lines = []
        for b in blocks[:2]:
            m = re.search(r"/main\.go:(\d+)", b)
            if m:
                lines.append(int(m.group(1)))
        if lines:
            out.append(lines)
    return out


def check_c14(tier, seed):
    t0 = time.time()
    rep = Report("C14")
    bdir = build()
    binary = os.path.join(bdir, "simharness-norace")
    nprog, nsched = (60, 12) if tier == "quick" else (800, 40)
    progs = [cgen.generate_mixed(seed + 14, i, faults=False) for i in range(nprog)]
    static = c14_static(binary, progs)
    st = BStats()
    buckets = collections.Counter()
    farm = ExecFarm()
    try:
        usable = [i for i, s in enumerate(static) if s is not None]
        buckets["static analysis without verdict (crash or error)"] = nprog - len(usable)
        farm.build_all([progs[i] for i in usable])
        rng = Rng(seed ^ 0xC14)
        plan = [(i, b_params(rng)) for i in usable for _ in range(nsched)]
        res = run_dynamic(farm, progs, plan, sinks=False, access_log=True)
        local_lines = sum(len(static[i]["L"]) for i in usable)
        races = 0
        local_accesses = 0
        for (pi, params), r in zip(plan, res):
            h = hard_b(r)
            if h:
                st.hard[h.split(":")[0]] += 1
                rep.inconclusive.append("%s: %s" % (progs[pi]["name"], h))
                continue
            st.add(progs[pi], params, r, shared_objects(r.get("accesses")) > 0)
            races += len(race_reports_b(r.get("race", "")))
            local_accesses += sum(1 for a in r.get("accesses") or [] if a["line"] in static[pi]["L"])
            for what, ln in c14_violations(static[pi], r):
                stmt = progs[pi]["clean"].split("\n")[ln - 1].strip()
                shape = re.sub(r"\d+", "N", stmt)
                sig = "%s: `%s`" % (what, shape)
                mp = params
                if rep.match_known(sig) is None and not any(sg == sig for sg, _ in rep.violations):
                    mp, repro = minimise_b(farm, progs[pi], params, False, True,
                                           lambda rr, ss=static[pi], l=ln: not hard_b(rr) and any(x == l for _, x in c14_violations(ss, rr)))
                rep.violation(sig, replay_b("C14", progs[pi], mp, sig, {"line": ln, "statement": stmt}), progs[pi]["name"])
        cov = st.coverage({"programs": nprog, "programs_with_static_verdict": len(usable), "schedules_per_program": nsched,
                           "lines_claimed_local": local_lines, "logged_accesses_at_lines_claimed_local": local_accesses,
                           "race_reports_seen": races, "buckets": dict(buckets),
                           "runs_per_hour": int(st.runs / max(1e-9, time.time() - t0) * 3600), "seeds": [seed]})
        write_evidence("C14", tier, seed, cov, time.time() - t0, len(rep.violations),
                       ["a line is claimed local iff every memory-accessing SSA instruction on it is local in every context of the walk (arbitrary context for main and go callees, call-site contexts for callees)",
                        "the access-log oracle is deliberately weak (another goroutine must access the object both before and after): it can only under-report",
                        "the race detector cannot see the scheduler (baton outside its happens-before model)"])
    finally:
        farm.close()
    return rep.finish()


# =============================================================== C19

def norm_fn(name):
    """Function name of a may-panic finding without package qualifier and bound-method suffix."""
    n = name.replace("command-line-arguments.", "")
    return re.sub(r"\$(bound|thunk)$", "", n)


def reported(pairs, entry, go_line):
    for fn, line in pairs:
        if line != go_line:
            continue
        if fn == entry or (entry.startswith("main$") and fn.startswith("main$")):
            return True
    return False


def check_c19(tier, seed):
    t0 = time.time()
    rep = Report("C19")
    bdir = build()
    binary = os.path.join(bdir, "simharness-norace")
    nprog, nsched = (80, 3) if tier == "quick" else (1000, 8)
    progs = [cgen.generate(seed + 19, i, faults=True, stmts=2 + (i % 4)) for i in range(nprog)]
    # The report must hold in every run of the tool: the static side is run under several map iteration orders and a
    # (function, creation site) pair counts as reported only if every run reports it.
    norders = 3 if tier == "quick" else 6
    orng = Rng(seed ^ 0x519)
    jobs = []
    for k in range(norders):
        for j in static_jobs(progs, "maypanic", {}):
            if k > 0:
                j["params"] = dict(sysa.base_params(), tape=make_tape(orng, 400, "uniform"), map_perm_pct=100,
                                   map_salt=orng.next() & 0xFFFFFFFF)
            j["id"] = len(jobs)
            jobs.append(j)
    sres = run_jobs(binary, [{k: v for k, v in j.items() if not k.startswith("_")} for j in jobs], timeout=300)
    static = []
    for pi in range(len(progs)):
        common_pairs = None
        for k in range(norders):
            r = sres[k * len(progs) + pi]
            mp = (r or {}).get("maypanic")
            if r is None or sysa.classify_hard(r) or r.get("died") or r.get("panic") or mp is None:
                common_pairs = None
                break
            pairs = set((norm_fn(f["function"]), c) for f in mp["findings"] for c in f["creators"])
            common_pairs = pairs if common_pairs is None else (common_pairs & pairs)
        static.append(common_pairs)
    st = BStats()
    buckets = collections.Counter()
    forms_killed = collections.Counter()
    farm = ExecFarm()
    try:
        usable = [i for i, s in enumerate(static) if s is not None]
        buckets["static analysis without verdict"] = nprog - len(usable)
        farm.build_all([progs[i] for i in usable])
        rng = Rng(seed ^ 0xC19)
        plan = []
        for i in usable:
            for w in progs[i]["meta"]["workers"]:
                for fl in w["fault_lines"]:
                    for _ in range(nsched):
                        plan.append((i, b_params(rng, fault_site=fl, fault_at=1), w))
                for fl in w.get("twin_fault_lines") or []:
                    tw = dict(w, entry=w["twin_entry"], recovers=False, form=w["form"] + "-second-instantiation", defer="none")
                    for _ in range(nsched):
                        plan.append((i, b_params(rng, fault_site=fl, fault_at=1), tw))
        res = run_dynamic(farm, progs, [(i, p) for i, p, _ in plan], sinks=False, access_log=False)
        for (pi, params, w), r in zip(plan, res):
            h = hard_b(r)
            if h:
                st.hard[h.split(":")[0]] += 1
                rep.inconclusive.append("%s: %s" % (progs[pi]["name"], h))
                continue
            sim = r.get("sim") or {}
            fired = sim.get("faults_fired", 0) > 0
            st.add(progs[pi], params, r, fired)
            panics = sim.get("panics") or []
            if not fired:
                buckets["fault point not reached under this schedule"] += 1
                continue
            killed = [p for p in panics if p["create_site"] == w["go_line"]]
            if w["form"].startswith("generic_launch"):
                # two goroutines share the creation site; attribute by the fault line that fired
                killed = killed[:1] if killed else []
            # generator self-check: the generator's belief about recover semantics must match the execution
            if w["recovers"] and killed:
                raise Inconclusive("generator self-check failed: %s worker %d (%s) was believed to recover but the panic reached the top" % (progs[pi]["name"], w["k"], w["defer"]))
            if not w["recovers"] and not killed:
                raise Inconclusive("generator self-check failed: %s worker %d (%s) was believed not to recover but no panic reached the top of its goroutine (panics: %r)" % (progs[pi]["name"], w["k"], w["defer"], panics))
            if w["recovers"]:
                buckets["panic recovered by the entry function's deferred recover (program continues)"] += 1
                continue
            forms_killed[(w["form"], w["defer"])] += 1
            if not reported(static[pi], w["entry"], w["go_line"]):
                sig = "goroutine killed by an unrecovered panic is not in the may-panic report: go form %s, defer form %s" % (w["form"], w["defer"])
                mp = params
                if rep.match_known(sig) is None and not any(sg == sig for sg, _ in rep.violations):
                    mp, repro = minimise_b(farm, progs[pi], params, False, False,
                                           lambda rr, gl=w["go_line"]: not hard_b(rr) and any(p["create_site"] == gl for p in (rr.get("sim") or {}).get("panics") or []))
                rep.violation(sig, replay_b("C19", progs[pi], mp, sig, {"worker": w}), progs[pi]["name"])
        cov = st.coverage({"programs": nprog, "programs_with_static_verdict": len(usable), "schedules_per_fault_point": nsched,
                           "buckets": dict(buckets),
                           "go_form_x_defer_form_killed_by_panic": {"%s/%s" % k: v for k, v in sorted(forms_killed.items())},
                           "runs_per_hour": int(st.runs / max(1e-9, time.time() - t0) * 3600), "seeds": [seed]})
        write_evidence("C19", tier, seed, cov, time.time() - t0, len(rep.violations),
                       ["the first sentence of C19 is syntactic; simulation contributes the execution-level ground truth (which injected panics reach the top of which goroutine under which schedule) and checks the generator's beliefs about recover semantics",
                        "the process is not killed: the simulator's outermost deferred frame of the task observes that the panic reached the top of the goroutine",
                        "a finding is matched by its creation site (line of the go statement)"])
    finally:
        farm.close()
    return rep.finish()


def run_replay(prop, path):
    pl = json.load(open(path))
    bdir = build()
    binary = os.path.join(bdir, "simharness-norace")
    prog = {"name": pl["program"], "clean": pl["clean"], "exec": pl["exec"], "meta": pl["meta"]}
    farm = ExecFarm()
    try:
        farm.build_all([prog])
        print("replay of %s" % path)
        print("expected signature: %s" % pl["signature"])
        hit = False
        if prop == "C13":
            s = c13_static(binary, [prog])[0]
            r = farm.run(prog["name"], pl["params"], True, True)
            bad = c13_violations(s, r) if s else []
            print("observed flows: %r; missed: %r; analysis error: %r" % (r.get("flows"), bad, s and s["err"]))
            hit = bool(bad) and not (s and s["err"])
        elif prop == "C14":
            s = c14_static(binary, [prog])[0]
            r = farm.run(prog["name"], pl["params"], False, True)
            v = c14_violations(s, r) if s else []
            print("violations: %r" % v)
            hit = any(ln == pl.get("line") for _, ln in v)
        elif prop == "C19":
            sr = run_one(binary, static_jobs([prog], "maypanic", {})[0])
            creators = set((norm_fn(f["function"]), c) for f in ((sr or {}).get("maypanic") or {}).get("findings", []) for c in f["creators"])
            r = farm.run(prog["name"], pl["params"], False, False)
            w = pl["worker"]
            killed = [p for p in (r.get("sim") or {}).get("panics") or [] if p["create_site"] == w["go_line"]]
            print("panics reaching the top: %r; report creators: %r" % (killed, sorted(creators)))
            hit = bool(killed) and not reported(creators, w["entry"], w["go_line"])
        if hit:
            print("VIOLATION property=%s replay=%s" % (prop, path))
            return 1
        print("the recorded violation did not reproduce on the current tree")
        return 0
    finally:
        farm.close()


TABLE = {"C13": check_c13, "C14": check_c14, "C19": check_c19}
