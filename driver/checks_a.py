"""Checks over system A: C05, C06, C17, C20."""
import collections
import json
import os
import time

from common import (Rng, Report, build, run_jobs, run_one, find_site, log, write_evidence, race_signature,
                    Inconclusive, REAL, STUB, sites, make_tape, trim_tape)
import sysa
import tgen

REPORT_OPTS = ["report-summaries", "report-coverage", "report-paths", "report-no-callee-sites"]


def sample_record(job, r):
    sim = (r or {}).get("sim") or {}
    return {"program": job.get("_prog"), "options": job.get("options"), "kind": job.get("kind"),
            "params": {k: (v if k != "tape" else (trim_tape(v)[:12] + ["..."] if len(v) > 12 else v))
                       for k, v in job["params"].items()},
            "sched_fp": sim.get("sched_fp"), "map_fp": sim.get("map_fp"), "steps": sim.get("steps"),
            "tasks": sim.get("tasks"), "flows": len((r or {}).get("flows") or []),
            "escapes": len((r or {}).get("escapes") or []), "traces": len((r or {}).get("traces") or [])}


class Stats:
    def __init__(self):
        self.runs = 0
        self.steps = 0
        self.fps = set()
        self.nontrivial = set()
        self.faults = collections.Counter()
        self.probes = collections.Counter()
        self.ties = 0
        self.hard = collections.Counter()
        self.samples = []
        self.map_permuted = 0
        self.rendezvous = 0
        self.tasks_max = 0

    def add(self, job, r):
        self.runs += 1
        sim = (r or {}).get("sim") or {}
        self.steps += sim.get("steps", 0)
        fp = (job.get("_prog"), json.dumps(job.get("options"), sort_keys=True), sim.get("sched_fp"), sim.get("map_fp"))
        self.fps.add(fp)
        if sim.get("multi_decisions", 0) > 0 or sim.get("map_permuted", 0) > 0 or sim.get("picks_permuted", 0) > 0:
            self.nontrivial.add(fp)
        p = job["params"]
        if p.get("starve_len"):
            self.faults["stall/starvation configured"] += 1
            if sim.get("starved_decisions", 0) > 0:
                self.faults["stall/starvation fired (runs)"] += 1
                self.faults["stall/starvation fired (decisions)"] += sim.get("starved_decisions", 0)
        if p.get("map_perm_pct"):
            self.faults["adversarial map order configured"] += 1
            if sim.get("map_permuted", 0) > 0:
                self.faults["adversarial map order fired (runs)"] += 1
                self.faults["adversarial map order fired (iterations)"] += sim.get("map_permuted", 0)
        if p.get("numcpu", 1) in (1, 2):
            self.faults["worker-count extreme: minimum workers"] += 1
        if p.get("numcpu", 1) >= 9:
            self.faults["worker-count extreme: more workers than jobs likely"] += 1
        self.ties += sim.get("key_ties", 0)
        self.map_permuted += sim.get("map_permuted", 0)
        self.rendezvous += sim.get("rendezvous", 0)
        self.tasks_max = max(self.tasks_max, sim.get("tasks", 0))
        if len(self.samples) < 4 and sim:
            self.samples.append(sample_record(job, r))

    def coverage(self, rule, extra=None):
        cov = {"evaluations": self.runs, "distinct_nontrivial": len(self.nontrivial), "rule": rule,
               "samples": self.samples, "steps_total": self.steps, "distinct_fingerprints": len(self.fps),
               "faults": dict(self.faults), "canonical_key_ties": self.ties, "map_iterations_permuted": self.map_permuted,
               "rendezvous_total": self.rendezvous, "max_tasks_in_a_run": self.tasks_max,
               "runs_without_verdict": dict(self.hard), "real_components": REAL, "stubbed_components": STUB,
               "simulated_time": "%d logical steps (there is no other clock in the analyser: time.Now/Since only feed log lines)" % self.steps}
        if extra:
            cov.update(extra)
        return cov


RULE_A = ("one case = one simulated run of the analyser: (program, option set, run parameters incl. the choice tape). "
          "Two cases are distinct when (program, options, schedule fingerprint = FNV of the (task,site,op) event log, "
          "map-order fingerprint) differ. Non-trivial = at least one scheduling decision had >= 2 enabled actions or at "
          "least one map iteration with >= 2 keys was permuted.")


def replay_payload(prop, job, signature, note=""):
    j = {k: v for k, v in job.items() if not k.startswith("_")}
    return {"property": prop, "harness": "simharness", "signature": signature, "job": j, "note": note,
            "program": job.get("_prog")}


def confirm(binary, job, pred, times=2):
    """A violation is reported only if it reproduces in fresh processes."""
    for _ in range(times):
        r = run_one(binary, {k: v for k, v in job.items() if not k.startswith("_")})
        if not pred(r):
            return False
    return True


def root_of(signature):
    """Root-cause key used to avoid one replay per access-site pair of the same race."""
    if signature.startswith("race goroutines["):
        return signature.split("] at ")[0] + "]"
    return signature


MINIMISE_BUDGET = {"left": 6}


def report_violation(rep, binary, prop, job, signature, pred, name, minimise=True):
    """pred(result) -> True iff the same violation class is present. Minimises, confirms, records.
    Violations sharing a root (same pair of goroutines racing) get one replay; the further access-site pairs are
    appended to it."""
    if rep.match_known(signature) is not None:
        rep.violation(signature, None, name)
        return
    root = root_of(signature)
    for s, path in rep.violations:
        if s == signature:
            return
        if root_of(s) == root:
            try:
                pl = json.load(open(path))
                also = pl.setdefault("also_observed", [])
                if signature not in also and len(also) < 50:
                    also.append(signature)
                    json.dump(pl, open(path, "w"), indent=1, sort_keys=True)
            except (OSError, ValueError):
                pass
            return
    clean = {k: v for k, v in job.items() if not k.startswith("_")}
    final = clean
    note = ""
    if minimise and MINIMISE_BUDGET["left"] > 0:
        MINIMISE_BUDGET["left"] -= 1
        try:
            final, ok = sysa.minimise(binary, clean, pred)
            if not ok:
                note = ("the first fresh-process re-execution did not show the violation (replays: false): reported "
                        "unminimised. For race reports this is the detector's bounded shadow memory, not the schedule.")
                final = clean
        except Exception as e:  # noqa
            note = "minimisation failed: %r" % (e,)
            final = clean
    elif minimise:
        note = "minimisation budget of this run exhausted; reported unminimised"
    final["_prog"] = job.get("_prog")
    rep.violation(signature, replay_payload(prop, final, signature, note), name)


# =============================================================== C20

def mappar_jobs(seed, n):
    rng = Rng(seed ^ 0xC20A)
    jobs = []
    for i in range(n):
        p = sysa.swarm_params(rng)
        p["range_yield_pct"] = 0
        ln = rng.below(41)
        if i % 50 == 0:
            ln = rng.pick([0, 1, 2])
        workers = rng.below(22) - 1
        j = {"id": i, "kind": "mappar", "len": ln, "workers": workers, "params": sysa.strip(p), "_prog": "mappar"}
        jobs.append(j)
    return jobs


def run_replay(prop, path):
    """Re-executes a replay file in a fresh process and prints what it shows."""
    payload = json.load(open(path))
    bdir = build()
    binary = os.path.join(bdir, "simharness")
    job = payload["job"]
    job["events"] = False
    r = run_one(binary, job, timeout=600)
    sigs = signatures_of(prop, job, r, bdir)
    print("replay of %s" % path)
    print("expected signature: %s" % payload.get("signature"))
    for s in sigs:
        print("observed: %s" % s)
    if payload.get("signature") in sigs:
        print("VIOLATION property=%s replay=%s" % (prop, path))
        return 1
    print("the recorded violation did not reproduce on the current tree")
    return 0


def c20_signatures(job, r):
    """All C20 violation signatures visible in one run result."""
    out = []
    if r is None:
        return out
    if r.get("died"):
        out.append("died: " + sysa.short_panic(r.get("stderr", ""))[:160])
        for s in race_signature(r.get("race", "")):
            out.append("race " + s)
        return out
    sim = r.get("sim") or {}
    for s in race_signature(r.get("race", "")):
        out.append("race " + s)
    if sim.get("deadlock"):
        where = sorted("%s@site%d" % (b["blocked"], b["site"]) for b in sim.get("blocked", []))
        out.append("deadlock " + ",".join(where))
    for p in sim.get("panics", []) or []:
        out.append("panic-in-task " + sysa.short_panic(p.get("value", "") + "\n" + p.get("stack", "")))
    if sim.get("alive_at_main_return"):
        for t in sim["alive_at_main_return"]:
            out.append("goroutine-alive-at-return created at site %d" % t["create_site"])
    if job["kind"] == "mappar":
        mp = r.get("mappar")
        if mp is not None:
            if not mp["equal"]:
                out.append("mapparallel-differs-from-map")
            if any(c != 1 for c in mp.get("exec_count") or []):
                out.append("mapparallel-element-not-processed-exactly-once")
    return sorted(set(out))


def site_desc(bdir, sig):
    """Replaces 'site N' by the source position so that signatures survive renumbering."""
    import re
    tab = sites(bdir)

    def f(m):
        s = tab.get(int(m.group(2)))
        return m.group(1) + (s["pos"].rsplit(":", 1)[0] if s else "?")
    return re.sub(r"(site ?)(\d+)", f, sig)


def signatures_of(prop, job, r, bdir):
    if prop == "C20":
        return [site_desc(bdir, s) for s in c20_signatures(job, r)]
    if prop == "C17":
        return ["c17 " + c17_class(v) for v in (r or {}).get("c17") or []]
    return []


def c17_class(v):
    """Violation class of a C17 message: category plus the node kinds involved (address/name free)."""
    import re
    cat, _, rest = v.partition(": ")
    kinds = re.findall(r"(\w+)\[", rest)
    return cat + " " + "->".join(kinds[:2])


def check_c20(tier, seed):
    t0 = time.time()
    rep = Report("C20")
    bdir = build()
    binary = os.path.join(bdir, "simharness")
    writer_site = find_site(bdir, "go", "BuildGraph")
    st = Stats()
    # (a) MapParallel alone
    na = 3000 if tier == "quick" else 60000
    jobs = mappar_jobs(seed, na)
    res = run_jobs(binary, jobs, timeout=120, progress=20000)
    for j, r in zip(jobs, res):
        hard = sysa.classify_hard(r)
        if hard and not (r or {}).get("died"):
            st.hard[hard.split(":")[0]] += 1
            rep.inconclusive.append("mappar run %d: %s" % (j["id"], hard))
            continue
        st.add(j, r)
        for sig in signatures_of("C20", j, r, bdir):
            report_violation(rep, binary, "C20", j, sig, lambda rr, s=sig, jj=j: s in signatures_of("C20", jj, rr, bdir),
                             "mappar-%d" % j["id"])
    mappar_runs = st.runs
    # (b) the whole analyser with report options
    nprog, nseeds = (60, 6) if tier == "quick" else (600, 20)
    rng = Rng(seed ^ 0xC20B)
    jobs = []
    for pi in range(nprog):
        prog = sysa.gen_program(seed, pi)
        for si in range(nseeds):
            opts = {"log-level": rng.pick([1, 1, 1, 3, 5])}
            combo = rng.below(16) if si else 15
            for bi, o in enumerate(REPORT_OPTS):
                if combo & (1 << bi):
                    opts[o] = True
            if rng.chance(30):
                opts["summarize-on-demand"] = True
            kind = "taint" if rng.chance(80) else "backtrace"
            p = sysa.swarm_params(rng, writer_site, allow_writer_starve=opts.get("report-summaries", False))
            j = sysa.make_job(len(jobs), kind, prog, opts, p)
            j["_prog"] = prog["name"]
            jobs.append(j)
    if tier == "thorough":
        for name, _ in sysa.CORPUS[:6]:
            prog = sysa.corpus_program(name)
            for si in range(3):
                opts = {"log-level": 1, "report-summaries": True, "report-coverage": si > 0, "report-paths": si > 1}
                p = sysa.swarm_params(rng, writer_site, allow_writer_starve=True)
                p["max_steps"] = 5000000
                j = sysa.make_job(len(jobs), "taint", prog, opts, p)
                j["_prog"] = prog["name"]
                jobs.append(j)
    res = run_jobs(binary, jobs, timeout=900 if tier == "thorough" else 240, progress=1000)
    # reference for report completeness: per (program, options, kind) a run in which the writer goes first
    ref_cache = {}

    def reference_headers(j):
        key = (j["_prog"], json.dumps(j["options"], sort_keys=True), j["kind"])
        if key not in ref_cache:
            rj = {k: v for k, v in j.items() if not k.startswith("_")}
            rj["params"] = sysa.base_params()
            rj["params"]["prio_salt"] = 0
            # starve everything but the writer: starve task 0 (the linker) while the writer exists
            rj["params"]["starve_task"] = 0
            rj["params"]["starve_from"] = 0
            rj["params"]["starve_len"] = 100000000
            rj["params"]["range_yield_pct"] = 100
            rr = run_one(binary, rj, timeout=900)
            ref_cache[key] = ((rr or {}).get("reports") or {}).get("summaries", {}).get("headers") or []
        return ref_cache[key]

    complete_checked = 0
    for j, r in zip(jobs, res):
        hard = sysa.classify_hard(r)
        if hard and not (r or {}).get("died"):
            st.hard[hard.split(":")[0]] += 1
            rep.inconclusive.append("analyser run %d (%s): %s" % (j["id"], j["_prog"], hard))
            continue
        st.add(j, r)
        sigs = signatures_of("C20", j, r, bdir)
        if j["options"].get("report-summaries") and not (r or {}).get("died") and not ((r or {}).get("sim") or {}).get("aborted") \
                and not r.get("panic") and r.get("summaries", 0) > 0:
            have = set(((r.get("reports") or {}).get("summaries") or {}).get("headers") or [])
            want = set(reference_headers(j))
            complete_checked += 1
            if not want <= have:
                sigs.append("summaries-report-incomplete-at-return")
        for sig in sigs:
            def pred(rr, s=sig, jj=j):
                got = signatures_of("C20", jj, rr, bdir)
                if s == "summaries-report-incomplete-at-return":
                    have = set((((rr or {}).get("reports") or {}).get("summaries") or {}).get("headers") or [])
                    return not set(reference_headers(jj)) <= have
                return s in got
            report_violation(rep, binary, "C20", j, sig, pred, "analyser-%d" % j["id"])
    cov = st.coverage(RULE_A, {"mapparallel_runs": mappar_runs, "analyser_runs": st.runs - mappar_runs,
                               "report_completeness_checked": complete_checked,
                               "runs_per_hour": int(st.runs / max(1e-9, time.time() - t0) * 3600),
                               "seeds": [seed]})
    write_evidence("C20", tier, seed, cov, time.time() - t0, len(rep.violations),
                   ["the race detector's happens-before model; simrt's models of channel/WaitGroup/Mutex enabledness",
                    "generated programs are import-free (plus %d std-importing corpus programs in the thorough tier)" % 6])
    return rep.finish()
