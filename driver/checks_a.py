"""Checks over system A: C05, C06, C17, C20."""
import collections
import json
import os
import time

from common import (hash_str, Rng, Report, build, run_jobs, run_one, find_site, log, write_evidence, race_signature,
                    Inconclusive, REAL, STUB, sites, make_tape, trim_tape)
import sysa
import tgen

REPORT_OPTS = ["report-summaries", "report-coverage", "report-paths", "report-no-callee-sites"]


def sample_record(job, r):
    sim = (r or {}).get("sim") or {}
    return {"program": job.get("_prog"), "options": job.get("options"), "kind": job.get("kind"),
            "params": {k: (v if k != "tape" else (trim_tape(v)[:12] + ["..."] if len(v) > 12 else v))
                       for k, v in job["params"].items()},
            "sched_fp": sim.get("sched_fp"), "map_fp": sim.get("map_fp"), "steps": sim.get("steps"),
            "tasks": sim.get("tasks"), "flows": len((r or {}).get("flows") or []),
            "escapes": len((r or {}).get("escapes") or []), "traces": len((r or {}).get("traces") or [])}


class Stats:
    def __init__(self):
        self.runs = 0
        self.steps = 0
        self.fps = set()
        self.nontrivial = set()
        self.faults = collections.Counter()
        self.probes = collections.Counter()
        self.ties = 0
        self.hard = collections.Counter()
        self.samples = []
        self.map_permuted = 0
        self.rendezvous = 0
        self.tasks_max = 0

    def add(self, job, r):
        self.runs += 1
        sim = (r or {}).get("sim") or {}
        self.steps += sim.get("steps", 0)
        fp = (job.get("_prog"), json.dumps(job.get("options"), sort_keys=True), sim.get("sched_fp"), sim.get("map_fp"))
        self.fps.add(fp)
        if sim.get("multi_decisions", 0) > 0 or sim.get("map_permuted", 0) > 0 or sim.get("picks_permuted", 0) > 0:
            self.nontrivial.add(fp)
        p = job["params"]
        if p.get("starve_len"):
            self.faults["stall/starvation configured"] += 1
            if sim.get("starved_decisions", 0) > 0:
                self.faults["stall/starvation fired (runs)"] += 1
                self.faults["stall/starvation fired (decisions)"] += sim.get("starved_decisions", 0)
        if p.get("map_perm_pct"):
            self.faults["adversarial map order configured"] += 1
            if sim.get("map_permuted", 0) > 0:
                self.faults["adversarial map order fired (runs)"] += 1
                self.faults["adversarial map order fired (iterations)"] += sim.get("map_permuted", 0)
        if p.get("numcpu", 1) in (1, 2):
            self.faults["worker-count extreme: minimum workers"] += 1
        if p.get("numcpu", 1) >= 9:
            self.faults["worker-count extreme: more workers than jobs likely"] += 1
        self.ties += sim.get("key_ties", 0)
        self.map_permuted += sim.get("map_permuted", 0)
        self.rendezvous += sim.get("rendezvous", 0)
        self.tasks_max = max(self.tasks_max, sim.get("tasks", 0))
        kinds_seen = [x.get("kind") for x in self.samples]
        if sim and len(self.samples) < 6 and kinds_seen.count(job.get("kind")) < 2:
            self.samples.append(sample_record(job, r))
        if str(job.get("_prog", "")).endswith("-nomain"):
            self.faults["initialisation step failure configured"] += 1
            if (r or {}).get("err"):
                self.faults["initialisation step failure fired (analysis returned the error)"] += 1

    def coverage(self, rule, extra=None):
        cov = {"evaluations": self.runs, "distinct_nontrivial": len(self.nontrivial), "rule": rule,
               "samples": self.samples, "steps_total": self.steps, "distinct_fingerprints": len(self.fps),
               "faults": dict(self.faults), "canonical_key_ties": self.ties, "map_iterations_permuted": self.map_permuted,
               "rendezvous_total": self.rendezvous, "max_tasks_in_a_run": self.tasks_max,
               "runs_without_verdict": dict(self.hard), "real_components": REAL, "stubbed_components": STUB,
               "simulated_time": "%d logical steps (there is no other clock in the analyser: time.Now/Since only feed log lines)" % self.steps}
        if extra:
            cov.update(extra)
        return cov


RULE_A = ("one case = one simulated run of the analyser: (program, option set, run parameters incl. the choice tape). "
          "Two cases are distinct when (program, options, schedule fingerprint = FNV of the (task,site,op) event log, "
          "map-order fingerprint) differ. Non-trivial = at least one scheduling decision had >= 2 enabled actions or at "
          "least one map iteration with >= 2 keys was permuted.")


def replay_payload(prop, job, signature, note=""):
    j = {k: v for k, v in job.items() if not k.startswith("_")}
    return {"property": prop, "harness": "simharness", "signature": signature, "job": j, "note": note,
            "program": job.get("_prog"), "variant": job.get("_variant")}


def confirm(binary, job, pred, times=2):
    """A violation is reported only if it reproduces in fresh processes."""
    for _ in range(times):
        r = run_one(binary, {k: v for k, v in job.items() if not k.startswith("_")})
        if not pred(r):
            return False
    return True


def root_of(signature):
    """Root-cause key used to avoid one replay per access-site pair of the same race."""
    if signature.startswith("race goroutines["):
        return signature.split("] at ")[0] + "]"
    return signature


MINIMISE_BUDGET = {"left": 6}


def report_violation(rep, binary, prop, job, signature, pred, name, minimise=True):
    """pred(result) -> True iff the same violation class is present. Minimises, confirms, records.
    Violations sharing a root (same pair of goroutines racing) get one replay; the further access-site pairs are
    appended to it."""
    if rep.match_known(signature) is not None:
        rep.violation(signature, None, name)
        return
    root = root_of(signature)
    for s, path in rep.violations:
        if s == signature:
            return
        if root_of(s) == root:
            try:
                pl = json.load(open(path))
                also = pl.setdefault("also_observed", [])
                if signature not in also and len(also) < 50:
                    also.append(signature)
                    json.dump(pl, open(path, "w"), indent=1, sort_keys=True)
            except (OSError, ValueError):
                pass
            return
    clean = {k: v for k, v in job.items() if not k.startswith("_")}
    final = clean
    note = ""
    if minimise and MINIMISE_BUDGET["left"] > 0:
        MINIMISE_BUDGET["left"] -= 1
        try:
            final, ok = sysa.minimise(binary, clean, pred)
            if not ok:
                note = ("the first fresh-process re-execution did not show the violation (replays: false): reported "
                        "unminimised. For race reports this is the detector's bounded shadow memory, not the schedule.")
                final = clean
        except Exception as e:  # noqa
            note = "minimisation failed: %r" % (e,)
            final = clean
    elif minimise:
        note = "minimisation budget of this run exhausted; reported unminimised"
    final["_prog"] = job.get("_prog")
    final["_variant"] = job.get("_variant")
    rep.violation(signature, replay_payload(prop, final, signature, note), name)


# =============================================================== C20

def mappar_jobs(seed, n):
    rng = Rng(seed ^ 0xC20A)
    jobs = []
    for i in range(n):
        p = sysa.swarm_params(rng)
        p["range_yield_pct"] = 0
        ln = rng.below(41)
        if i % 50 == 0:
            ln = rng.pick([0, 1, 2])
        workers = rng.below(22) - 1
        j = {"id": i, "kind": "mappar", "len": ln, "workers": workers, "params": sysa.strip(p), "_prog": "mappar"}
        jobs.append(j)
    return jobs


def ref_job_of(job):
    rj = {k: v for k, v in job.items() if not k.startswith("_")}
    rj["params"] = dict(sysa.base_params(), max_steps=job["params"].get("max_steps", sysa.MAX_STEPS))
    return rj


def observe(prop, binary, bdir, job, payload=None):
    """Signatures visible when job is executed in a fresh process (used by --replay)."""
    r = run_one(binary, {k: v for k, v in job.items() if not k.startswith("_")}, timeout=900)
    if prop in ("C20", "C17"):
        sigs = signatures_of(prop, job, r, bdir)
        if prop == "C20" and job.get("options", {}).get("report-summaries") and r and not r.get("died"):
            rj = ref_job_of(job)
            rj["params"].update({"starve_task": 0, "starve_from": 0, "starve_len": 100000000, "range_yield_pct": 100})
            rr = run_one(binary, rj, timeout=900)
            ref, have = (rr or {}).get("reports") or {}, (r or {}).get("reports") or {}
            if not set((ref.get("summaries") or {}).get("headers") or []) <= set((have.get("summaries") or {}).get("headers") or []):
                sigs.append("summaries-report-incomplete-at-return")
            if (ref.get("summary") or {}).get("lines", 0) > (have.get("summary") or {}).get("lines", 0):
                sigs.append("summary-times-report-incomplete-at-return")
        return sigs
    r0 = run_one(binary, ref_job_of(job), timeout=900)
    if r is None or r0 is None or sysa.classify_hard(r) or sysa.classify_hard(r0):
        return ["no verdict: %s / %s" % (sysa.classify_hard(r), sysa.classify_hard(r0))]
    if prop == "C06":
        variant = (payload or {}).get("variant", "?")
        if r.get("died") or r.get("panic") or (r.get("sim") or {}).get("aborted"):
            return ["crash only under some schedule/order" if not r0.get("panic") else "crash under the zero tape too"]
        d = verdict_diff(sysa.result_key(r0), sysa.result_key(r))
        return [c06_signature(variant, d, r0, r)] if d else []
    if prop == "C05":
        base = ref_job_of(job)
        base["options"] = {"log-level": 1}
        rb = run_one(binary, base, timeout=900)
        a, b = set((rb or {}).get("flows") or []), set(r.get("flows") or [])
        k = job.get("options", {}).get("max-alarms", 0)
        if k:
            out = []
            if not b <= a:
                out.append("max-alarms result is not a subset of the unlimited result")
            if len(b) > k:
                out.append("max-alarms=%d reported more than k pairs" % k)
            if a and not b:
                out.append("max-alarms result empty although the unlimited result is not")
            return out
        if a != b:
            return ["verdict changes with options (%s flows)" % ("missing" if a - b else "extra")]
    return []


def run_replay(prop, path):
    """Re-executes a replay file in a fresh process and prints what it shows."""
    payload = json.load(open(path))
    bdir = build()
    binary = os.path.join(bdir, "simharness" if prop == "C20" else "simharness-norace")
    job = payload["job"]
    sigs = observe(prop, binary, bdir, job, payload)
    print("replay of %s" % path)
    print("expected signature: %s" % payload.get("signature"))
    for s in sigs:
        print("observed: %s" % s)
    want = payload.get("signature", "")
    if any(s == want or root_of(s) == root_of(want) or (prop in ("C05", "C06") and s.split(" [")[0].split(" (")[0] == want.split(" [")[0].split(" (")[0]) for s in sigs):
        print("VIOLATION property=%s replay=%s" % (prop, path))
        return 1
    print("the recorded violation did not reproduce on the current tree")
    return 0


def c20_signatures(job, r):
    """All C20 violation signatures visible in one run result."""
    out = []
    if r is None:
        return out
    if r.get("died"):
        out.append("died: " + sysa.short_panic(r.get("stderr", ""))[:160])
        for s in race_signature(r.get("race", "")):
            out.append("race " + s)
        return out
    sim = r.get("sim") or {}
    for s in race_signature(r.get("race", "")):
        out.append("race " + s)
    if sim.get("deadlock"):
        where = sorted("%s@site%d" % (b["blocked"], b["site"]) for b in sim.get("blocked", []))
        out.append("deadlock " + ",".join(where))
    for p in sim.get("panics", []) or []:
        out.append("panic-in-task " + sysa.short_panic(p.get("value", "") + "\n" + p.get("stack", "")))
    if sim.get("alive_at_main_return"):
        for t in sim["alive_at_main_return"]:
            out.append("goroutine-alive-at-return created at site %d" % t["create_site"])
    if r.get("dup_ids"):
        out.append("two summaries were handed the same id by the shared id counter (lost update)")
    if job["kind"] == "mappar":
        mp = r.get("mappar")
        if mp is not None:
            if not mp["equal"]:
                out.append("mapparallel-differs-from-map")
            if any(c != 1 for c in mp.get("exec_count") or []):
                out.append("mapparallel-element-not-processed-exactly-once")
    return sorted(set(out))


def site_desc(bdir, sig):
    """Replaces 'site N' by the source position so that signatures survive renumbering."""
    import re
    tab = sites(bdir)

    def f(m):
        s = tab.get(int(m.group(2)))
        return m.group(1) + (s["pos"].rsplit(":", 1)[0] if s else "?")
    return re.sub(r"(site ?)(\d+)", f, sig)


def signatures_of(prop, job, r, bdir):
    if prop == "C20":
        return [site_desc(bdir, s) for s in c20_signatures(job, r)]
    if prop == "C17":
        return ["c17 " + c17_class(v) for v in (r or {}).get("c17") or []]
    return []


def c17_class(v):
    """Violation class of a C17 message: category plus the node kinds involved (address/name free)."""
    import re
    cat, _, rest = v.partition(": ")
    kinds = re.findall(r"(\w+)\[", rest)
    return cat + " " + "->".join(kinds[:2])


def check_c20(tier, seed):
    t0 = time.time()
    rep = Report("C20")
    bdir = build()
    binary = os.path.join(bdir, "simharness")
    writer_site = find_site(bdir, "go", "BuildGraph")
    st = Stats()
    # (a) MapParallel alone
    na = 3000 if tier == "quick" else 40000
    jobs = mappar_jobs(seed, na)
    res = run_jobs(binary, jobs, timeout=120, progress=20000, fresh=False)
    for j, r in zip(jobs, res):
        hard = sysa.classify_hard(r)
        if hard and not (r or {}).get("died"):
            st.hard[hard.split(":")[0]] += 1
            rep.inconclusive.append("mappar run %d: %s" % (j["id"], hard))
            continue
        st.add(j, r)
        for sig in signatures_of("C20", j, r, bdir):
            report_violation(rep, binary, "C20", j, sig, lambda rr, cand=None, s=sig, jj=j: s in signatures_of("C20", cand or jj, rr, bdir),
                             "mappar-%d" % j["id"])
    mappar_runs = st.runs
    # (b) the whole analyser with report options
    nprog, nseeds = (60, 6) if tier == "quick" else (400, 12)
    rng = Rng(seed ^ 0xC20B)
    jobs = []
    # calibration: programs on which the analyser itself is too slow under simulation are dropped (and counted)
    cands = [sysa.gen_program(seed, pi) for pi in range(nprog)]
    cal = []
    for prog in cands:
        for kind in ("taint", "backtrace"):
            cj = sysa.make_job(len(cal), kind, prog, {"log-level": 1, "summarize-on-demand": kind == "taint"}, sysa.base_params())
            cj["_prog"] = prog["name"]
            cal.append(cj)
    cal_res = run_jobs(binary, cal, timeout=REF_TIMEOUT)
    slow = set(cj["_prog"] for cj, cr in zip(cal, cal_res) if cr is None or cr.get("timeout"))
    wall = collections.defaultdict(int)
    for cj, cr in zip(cal, cal_res):
        wall[cj["_prog"]] = max(wall[cj["_prog"]], (cr or {}).get("wall_ms", 0))
    dropped_slow = len(slow)
    for prog in cands:
        if prog["name"] in slow:
            continue
        for si in range(nseeds):
            opts = {"log-level": rng.pick([1, 1, 1, 3, 5])}
            combo = rng.below(16) if si else 15
            for bi, o in enumerate(REPORT_OPTS):
                if combo & (1 << bi):
                    opts[o] = True
            if rng.chance(30):
                opts["summarize-on-demand"] = True
            kind = "taint" if rng.chance(80) else "backtrace"
            p = sysa.swarm_params(rng, writer_site, allow_writer_starve=opts.get("report-summaries", False))
            j = sysa.make_job(len(jobs), kind, prog, opts, p)
            j["_prog"] = prog["name"]
            j["_timeout"] = max(120, int(60 * wall[prog["name"]] / 1000.0))
            jobs.append(j)
    # fault: an initialisation step fails (a program without a main package makes the pointer analysis step return
    # an error while the other steps are still running); the analyser must still join all its goroutines
    nfail = 0
    for pi, prog in enumerate(cands[: (6 if tier == "quick" else 40)]):
        bad = dict(prog, name=prog["name"] + "-nomain",
                   text=prog["text"].replace("package main", "package notmain", 1).replace("func main() {", "func Main() {", 1))
        for si in range(3 if tier == "quick" else 8):
            opts = {"log-level": rng.pick([1, 3])}
            if rng.chance(50):
                opts["report-summaries"] = True
            p = sysa.swarm_params(rng)
            j = sysa.make_job(len(jobs), rng.pick(["taint", "backtrace"]), bad, opts, p)
            j["_prog"] = bad["name"]
            j["_timeout"] = 120
            jobs.append(j)
            nfail += 1
    if tier == "thorough":
        for name, _ in sysa.CORPUS[:6]:
            prog = sysa.corpus_program(name)
            for si in range(3):
                opts = {"log-level": 1, "report-summaries": True, "report-coverage": si > 0, "report-paths": si > 1}
                p = sysa.swarm_params(rng, writer_site, allow_writer_starve=True)
                p["max_steps"] = 5000000
                j = sysa.make_job(len(jobs), "taint", prog, opts, p)
                j["_prog"] = prog["name"]
                jobs.append(j)
    res = run_jobs(binary, jobs, timeout=900 if tier == "thorough" else 240, progress=1000)
    # reference for report completeness: per (program, options, kind) a run in which the writer goes first
    ref_cache = {}

    def reference_headers(j):
        key = (j["_prog"], json.dumps(j["options"], sort_keys=True), j["kind"])
        if key not in ref_cache:
            rj = {k: v for k, v in j.items() if not k.startswith("_")}
            rj["params"] = sysa.base_params()
            rj["params"]["prio_salt"] = 0
            # starve everything but the writer: starve task 0 (the linker) while the writer exists
            rj["params"]["starve_task"] = 0
            rj["params"]["starve_from"] = 0
            rj["params"]["starve_len"] = 100000000
            rj["params"]["range_yield_pct"] = 100
            rr = run_one(binary, rj, timeout=900)
            ref_cache[key] = (rr or {}).get("reports") or {}
        return ref_cache[key]

    def incomplete_reports(j, r):
        """Report kinds whose file, read at the instant the analysis returned, lacks content that the reference run
        (every other task scheduled before the main one) has: summaries by section header, the others by line count."""
        ref = reference_headers(j)
        have = (r or {}).get("reports") or {}
        out = []
        want_h = set((ref.get("summaries") or {}).get("headers") or [])
        if not want_h <= set((have.get("summaries") or {}).get("headers") or []):
            out.append("summaries")
        # summary-times-*.csv has one line per function handled by the intra-procedural pass: a deterministic count.
        # (The flow and coverage reports are not compared by size: which path a flow report shows, and hence its length,
        # legitimately depends on the visit order.)
        if (ref.get("summary") or {}).get("lines", 0) > (have.get("summary") or {}).get("lines", 0):
            out.append("summary-times")
        return out

    # the references are independent runs: compute them in parallel, once per (program, options, kind)
    need = {}
    for j in jobs:
        if j["options"].get("report-summaries"):
            key = (j["_prog"], json.dumps(j["options"], sort_keys=True), j["kind"])
            if key not in need:
                rj = {k: v for k, v in j.items() if not k.startswith("_")}
                rj["params"] = dict(sysa.base_params(), starve_task=0, starve_from=0, starve_len=100000000,
                                    range_yield_pct=100, max_steps=j["params"].get("max_steps", sysa.MAX_STEPS))
                rj["_key"] = key
                need[key] = rj
    ref_jobs = list(need.values())
    for rj, rr in zip(ref_jobs, run_jobs(binary, ref_jobs, timeout=900, progress=5000)):
        ref_cache[rj["_key"]] = (rr or {}).get("reports") or {}
    complete_checked = 0
    for j, r in zip(jobs, res):
        hard = sysa.classify_hard(r)
        if hard and not (r or {}).get("died"):
            st.hard[hard.split(":")[0]] += 1
            rep.inconclusive.append("analyser run %d (%s): %s" % (j["id"], j["_prog"], hard))
            continue
        st.add(j, r)
        sigs = signatures_of("C20", j, r, bdir)
        if j["options"].get("report-summaries") and not (r or {}).get("died") and not ((r or {}).get("sim") or {}).get("aborted") \
                and not r.get("panic") and r.get("summaries", 0) > 0:
            complete_checked += 1
            for kind in incomplete_reports(j, r):
                sigs.append("%s-report-incomplete-at-return" % kind)
        for sig in sigs:
            def pred(rr, cand=None, s=sig, jj=j):
                cj = dict(cand or jj)
                cj.setdefault("_prog", jj["_prog"] + ("" if cand is None else "#" + str(hash(json.dumps(cand.get("files", {}), sort_keys=True)))))
                got = signatures_of("C20", cj, rr, bdir)
                if s.endswith("-report-incomplete-at-return"):
                    return s[:-len("-report-incomplete-at-return")] in incomplete_reports(cj, rr)
                return s in got
            report_violation(rep, binary, "C20", j, sig, pred, "analyser-%d" % j["id"])
    cov = st.coverage(RULE_A, {"mapparallel_runs": mappar_runs, "analyser_runs": st.runs - mappar_runs,
                               "report_completeness_checked": complete_checked,
                               "runs_with_a_failing_initialisation_step": nfail,
                               "programs_dropped_because_the_analyser_is_too_slow_on_them": dropped_slow,
                               "runs_per_hour": int(st.runs / max(1e-9, time.time() - t0) * 3600),
                               "seeds": [seed]})
    write_evidence("C20", tier, seed, cov, time.time() - t0, len(rep.violations),
                   ["the race detector's happens-before model; simrt's models of channel/WaitGroup/Mutex enabledness",
                    "generated programs are import-free (plus %d std-importing corpus programs in the thorough tier)" % 6])
    return rep.finish()


# =============================================================== shared exploration for C05 / C06 / C17

VARIANTS_C06 = [
    ("taint-eager", "taint", {}),
    ("taint-ondemand", "taint", {"summarize-on-demand": True}),
    ("backtrace", "backtrace", {}),
    ("taint-escape", "taint", {"use-escape-analysis": True}),
    ("taint-maxdepth", "taint", {"unsafe-max-depth": "vary"}),  # 3..9, drawn per program
    ("taint-fieldsens", "taint", {"field-sensitive": True}),
    ("backtrace-ondemand", "backtrace", {"summarize-on-demand": True}),
]


def verdict_diff(ref, got):
    """Returns a description of how two verdicts differ, or None."""
    for k in ("flows", "escapes", "traces"):
        a, b = set(ref[k]), set(got[k])
        if a != b:
            miss, extra = sorted(a - b), sorted(b - a)
            return "%s differ: missing %s extra %s" % (k, miss[:3], extra[:3])
    if ref["err"] != got["err"]:
        return "error status differs: reference %s, run %s" % (ref["err"], got["err"])
    return None


def diff_class(d):
    """Coarse class of a verdict difference (what is missing or extra, not which positions)."""
    if d is None:
        return None
    kind = d.split(" ")[0]
    if "error status" in d:
        return "error-status"
    m = "missing" if "missing []" not in d else ""
    e = "extra" if "extra []" not in d else ""
    return "%s-%s" % (kind, "+".join(x for x in (m, e) if x))


MISSING_ESCAPE = "missing escape for"


def c06_signature(variant, d, ref, r):
    """Signature of a verdict difference. One narrow class is separated out because it is a recorded finding:
    the flows and trace endpoints are equal, and the difference is confined to the escape set and/or to the presence
    of the visitor's 'missing escape ... in context' error (analysis/taint/dataflow_visitor.go, manageEscapeContexts),
    where which escape contexts exist depends on the visit order."""
    cls = diff_class(d)
    missing = MISSING_ESCAPE in (ref.get("err") or "") or MISSING_ESCAPE in (r.get("err") or "")
    if (cls.startswith("escapes-") or cls == "error-status") and missing \
            and set(ref.get("flows") or []) == set(r.get("flows") or []) \
            and set(ref.get("traces") or []) == set(r.get("traces") or []):
        return KNOWN_C06
    return "result depends on schedule/order [%s] %s" % (variant, cls)


KNOWN_C06 = ("use-escape-analysis: escape set / 'missing escape ... in context' error depends on visit order "
             "(flows equal; at least one run returns that error)")


REF_TIMEOUT = 45


def explore(binary, bdir, tier, seed, progs, variants, nseeds, st, rep, prop, on_result, timeout=240,
            extra_opts=None, max_steps=None, ref_timeout=REF_TIMEOUT):
    """Runs, for every (program, variant): one reference run (zero tape, 1 worker, canonical map order) and nseeds
    swarm runs. Calls on_result(job, result, ref_result) for every swarm run that produced a verdict.
    A (program, variant) whose reference run does not finish within ref_timeout is dropped (the analyser is
    exponential on some program shapes; how long it takes is not what these checks decide) and counted."""
    rng = Rng(seed ^ 0xA11CE)
    refs = []
    for prog in progs:
        for vname, kind, opts in variants:
            o = {"log-level": 1}
            o.update(opts)
            if o.get("unsafe-max-depth") == "vary":
                o["unsafe-max-depth"] = 3 + hash_str(prog["name"]) % 7
            if extra_opts:
                o.update(extra_opts)
            rp = sysa.base_params()
            if max_steps:
                rp["max_steps"] = max_steps
            rj = sysa.make_job(len(refs), kind, prog, o, rp)
            rj["_prog"], rj["_variant"], rj["_ref"], rj["_progobj"], rj["_kind"], rj["_opts"] = prog["name"], vname, True, prog, kind, o
            refs.append(rj)
    ref_res = run_jobs(binary, refs, timeout=ref_timeout, progress=2000)
    dropped = collections.Counter()
    jobs, meta = [], []
    for rj, rr in zip(refs, ref_res):
        if rr is not None and rr.get("timeout"):
            dropped["reference run slower than %ds: (program, variant) dropped" % ref_timeout] += 1
            continue
        hard = sysa.classify_hard(rr)
        if hard and not (rr or {}).get("died"):
            st.hard[hard.split(":")[0]] += 1
            rep.inconclusive.append("reference run (%s/%s): %s" % (rj["_prog"], rj["_variant"], hard))
            continue
        st.add(rj, rr)
        if (rr or {}).get("died") or ((rr or {}).get("sim") or {}).get("aborted"):
            dropped["reference run without verdict"] += 1
            continue
        tmo = max(90, int(40 * (rr.get("wall_ms", 1000) / 1000.0)))
        for si in range(nseeds):
            p = sysa.swarm_params(rng)
            if max_steps:
                p["max_steps"] = max_steps
            j = sysa.make_job(len(jobs), rj["_kind"], rj["_progobj"], rj["_opts"], p)
            j["_prog"], j["_variant"], j["_timeout"] = rj["_prog"], rj["_variant"], tmo
            jobs.append(j)
            meta.append(rr)
    res = run_jobs(binary, jobs, timeout=timeout, progress=2000)
    for j, r, ref in zip(jobs, res, meta):
        hard = sysa.classify_hard(r)
        if hard and not (r or {}).get("died"):
            st.hard[hard.split(":")[0]] += 1
            rep.inconclusive.append("run %d (%s/%s): %s" % (j["id"], j["_prog"], j["_variant"], hard))
            continue
        st.add(j, r)
        on_result(j, r, ref)
    for rj in refs:
        rj.pop("_progobj", None)
    return refs + jobs, list(ref_res) + list(res), dropped


def determinism_selftest(binary, seed, nprog, nseeds):
    """Every job is executed three times, in fresh processes at GOMAXPROCS 1, 4 and 16; schedule and map-order
    fingerprints, step counts and verdicts must be identical. Returns (jobs compared, mismatching jobs, detail)."""
    rng = Rng(seed ^ 0xD373)
    base = []
    for pi in range(nprog):
        prog = sysa.gen_program(seed + 6, pi)
        for si in range(nseeds):
            kind, opts = rng.pick([("taint", {}), ("taint", {"summarize-on-demand": True}), ("backtrace", {}),
                                   ("taint", {"use-escape-analysis": True})])
            o = {"log-level": 1}
            o.update(opts)
            base.append((kind, prog, o, sysa.swarm_params(rng)))
    jobs = []
    for bi, (kind, prog, o, p) in enumerate(base):
        for gmp in ("1", "4", "16"):
            j = sysa.make_job(len(jobs), kind, prog, o, p)
            j["_env"], j["_base"], j["_prog"] = {"GOMAXPROCS": gmp}, bi, prog["name"]
            jobs.append(j)
    res = run_jobs(binary, jobs, timeout=REF_TIMEOUT * 2)
    groups = collections.defaultdict(list)
    for j, r in zip(jobs, res):
        if r is None or r.get("timeout") or sysa.classify_hard(r):
            groups[j["_base"]].append(None)
            continue
        sim = r.get("sim") or {}
        # The map-order fingerprint folds (site, tape value, size) in call order. Keys whose canonical descriptions
        # tie (distinct *ssa.Const of equal value) keep their native relative order, and the loop bodies of such keys
        # may iterate further maps, so with ties the *sequence* of map sites can differ between processes while the
        # schedule, the number of draws and the verdict do not. It is therefore compared only in runs without ties.
        mfp = sim.get("map_fp") if not sim.get("key_ties") else "ties"
        groups[j["_base"]].append(json.dumps([sim.get("sched_fp"), mfp, sim.get("steps"), sim.get("tape_used"),
                                              r.get("flows"), r.get("escapes"), r.get("traces"), bool(r.get("err")),
                                              bool(r.get("panic"))], sort_keys=True))
    compared = mism = 0
    detail = []
    for bi, vals in groups.items():
        if any(v is None for v in vals):
            continue
        compared += 1
        if len(set(vals)) != 1:
            mism += 1
            verdicts = set(json.dumps(json.loads(v)[4:]) for v in vals)
            if len(detail) < 3:
                detail.append({"program": base[bi][1]["name"], "options": base[bi][2], "variants": len(set(vals)),
                               "verdict_differs": len(verdicts) > 1, "base": bi})
    return compared, mism, detail, base


def check_c06(tier, seed):
    t0 = time.time()
    rep = Report("C06")
    bdir = build()
    binary = os.path.join(bdir, "simharness-norace")
    st = Stats()
    nprog, nseeds = (30, 5) if tier == "quick" else (160, 8)
    progs = [sysa.gen_program(seed + 6, i) for i in range(nprog)]
    for k in range(16 if tier == "quick" else 40):
        progs.append({"kind": "src", "name": "pathfam-%d-%d" % (seed, k), "text": tgen.pathfam(Rng(seed * 17 + k))})
    # many small functions with one flow each: many entry points, many (summary id, node id) pairs
    for k in range(8 if tier == "quick" else 24):
        htext, hconfig = tgen.handlerfam(Rng(seed * 61 + k), style="fieldsrc" if k % 2 == 0 else None)
        progs.append({"kind": "src", "name": "handlerfam-%d-%d" % (seed, k), "text": htext, "config": hconfig})
    observations = collections.Counter()
    cur = {"b": binary}  # the binary the current exploration uses (replays must use the same instrumentation)

    def on_result(j, r, ref):
        if ref.get("panic"):
            # also panics on the calm reference schedule: a C07 matter, not a determinism one
            observations["program panics under the zero tape too (not a C06 matter): " + sysa.short_panic(ref["panic"])[:120]] += 1
            return
        sig = None
        if r.get("died"):
            sig = "crash only under some schedule/order: process died: " + sysa.short_panic(r.get("stderr", ""))[:120]
        elif (r.get("sim") or {}).get("aborted"):
            sim = r["sim"]
            if sim.get("panics"):
                sig = "crash only under some schedule/order: " + sysa.short_panic(sim["panics"][0].get("value", "") + "\n" + sim["panics"][0].get("stack", ""))
            elif sim.get("deadlock"):
                sig = "deadlock only under some schedule"
        elif r.get("panic"):
            sig = "crash only under some schedule/order: " + sysa.short_panic(r["panic"])
        else:
            d = verdict_diff(sysa.result_key(ref), sysa.result_key(r))
            if d:
                sig = c06_signature(j["_variant"], d, ref, r)
        if not sig:
            return
        def pred(rr, cand=None, s=sig, jj=j):
            if rr is None or sysa.classify_hard(rr):
                return False
            refjob = {k: v for k, v in (cand or jj).items() if not k.startswith("_")}
            refjob["params"] = dict(sysa.base_params(), max_steps=refjob["params"].get("max_steps", sysa.MAX_STEPS))
            r0 = run_one(cur["b"], refjob, timeout=600)
            if r0 is None or sysa.classify_hard(r0) or r0.get("died") or r0.get("panic") or (r0.get("sim") or {}).get("aborted"):
                return False
            if s.startswith("crash") or s.startswith("deadlock"):
                return bool(rr.get("died") or rr.get("panic") or (rr.get("sim") or {}).get("aborted"))
            if rr.get("died") or (rr.get("sim") or {}).get("aborted") or rr.get("panic"):
                return False
            d = verdict_diff(sysa.result_key(r0), sysa.result_key(rr))
            return d is not None and c06_signature(jj["_variant"], d, r0, rr) == s
        report_violation(rep, cur["b"], "C06", j, sig, pred, "run-%d" % j["id"])

    variants = VARIANTS_C06 if tier == "thorough" else VARIANTS_C06[:6]
    jobs, res, dropped = explore(binary, bdir, tier, seed, progs, variants, nseeds, st, rep, "C06", on_result)
    # unsafe-max-depth at *critical* depths: for every program the reference verdict is computed for depths 2..11;
    # a depth at which a flow first appears is where an order-dependent depth bookkeeping would cut it in some orders.
    crit_runs = 0
    drng = Rng(seed ^ 0xDE97)
    dprogs = progs[: (16 if tier == "quick" else 80)]
    for k in range(8 if tier == "quick" else 30):
        dprogs.append({"kind": "src", "name": "diamond-%d-%d" % (seed, k), "text": tgen.diamond(Rng(seed * 31 + k))})
    djobs = []
    for prog in dprogs:
        for d in range(2, 12):
            j = sysa.make_job(len(djobs), "taint", prog, {"log-level": 1, "unsafe-max-depth": d}, sysa.base_params())
            j["_prog"], j["_variant"], j["_depth"], j["_progobj"] = prog["name"], "taint-maxdepth-%d" % d, d, prog
            djobs.append(j)
    dres = run_jobs(binary, djobs, timeout=REF_TIMEOUT, progress=5000)
    byprog = collections.defaultdict(dict)
    for j, r in zip(djobs, dres):
        if r is None or r.get("timeout") or sysa.classify_hard(r) or r.get("died") or r.get("panic") \
                or (r.get("sim") or {}).get("aborted"):
            continue
        st.add(j, r)
        byprog[j["_prog"]][j["_depth"]] = (j, r)
    cjobs, cmeta = [], []
    for prog in dprogs:
        ds = byprog.get(prog["name"], {})
        crit = [d for d in sorted(ds) if d - 1 in ds and set(ds[d][1].get("flows") or []) != set(ds[d - 1][1].get("flows") or [])]
        # the depths just below a transition are explored too: under another order the flow may already fit there
        around = sorted(set(x for d in crit[:2] for x in (d - 2, d - 1, d) if x in ds))
        for d in around[:5]:
            for _ in range(nseeds * 2):
                p = sysa.swarm_params(drng)
                p["map_perm_pct"] = 100
                j = sysa.make_job(len(cjobs), "taint", prog, {"log-level": 1, "unsafe-max-depth": d}, p)
                j["_prog"], j["_variant"], j["_timeout"] = prog["name"], "taint-maxdepth-%d" % d, 120
                cjobs.append(j)
                cmeta.append(ds[d][1])
    cres = run_jobs(binary, cjobs, timeout=240, progress=5000)
    for j, r, ref in zip(cjobs, cres, cmeta):
        hard = sysa.classify_hard(r)
        if hard and not (r or {}).get("died"):
            st.hard[hard.split(":")[0]] += 1
            rep.inconclusive.append("run %d (%s/%s): %s" % (j["id"], j["_prog"], j["_variant"], hard))
            continue
        st.add(j, r)
        crit_runs += 1
        on_result(j, r, ref)
    for j in djobs:
        j.pop("_progobj", None)
    corpus_runs = 0
    ptr_runs = 0
    if tier == "thorough":
        # the pointer analysis' own map iterations behind the seam as well (a second instrumented build)
        bdir2 = build(skip_pkgs="internal/zzverif", tag="ptr")
        n0 = st.runs
        cur["b"] = os.path.join(bdir2, "simharness-norace")
        explore(os.path.join(bdir2, "simharness-norace"), bdir2, tier, seed + 2, progs[:60], VARIANTS_C06[:3], 6, st, rep,
                "C06", on_result)
        ptr_runs = st.runs - n0
        cur["b"] = binary
        cprogs = [sysa.corpus_program(n) for n, _ in sysa.CORPUS]
        n0 = st.runs
        explore(binary, bdir, tier, seed + 1, cprogs, [VARIANTS_C06[0], VARIANTS_C06[1]], 3, st, rep, "C06", on_result,
                timeout=1500, max_steps=20000000)
        corpus_runs = st.runs - n0
    nonempty = sum(1 for j, r in zip(jobs, res) if j.get("_ref") and r and (r.get("flows") or r.get("traces")))
    dn = (6, 3) if tier == "quick" else (40, 5)
    dcomp, dmis, ddetail, dbase = determinism_selftest(binary, seed, *dn)
    for dd in ddetail:
        if dd["verdict_differs"]:
            # the same tape gave two verdicts: nondeterminism outside the simulator's seams. It is a C06 violation, and
            # by its nature its replay may not reproduce (replays: false).
            kind, prog, o, p = dbase[dd["base"]]
            j = sysa.make_job(0, kind, prog, o, p)
            j["_prog"], j["_variant"] = prog["name"], "same-tape"
            sig = "verdict differs between executions of the same tape (nondeterminism outside the simulator's seams)"
            rep.violation(sig, replay_payload("C06", j, sig, "replays: false by nature"), "sametape-%s" % prog["name"])
        else:
            rep.inconclusive.append("determinism self-test: event logs differ between processes for the same tape: %r" % dd)
    cov = st.coverage(RULE_A, {"programs": nprog, "variants": [v[0] for v in variants], "seeds_per_variant": nseeds,
                               "determinism_selftest": {"jobs_compared_across_3_processes_GOMAXPROCS_1_4_16": dcomp,
                                                        "mismatches": dmis},
                               "reference_runs_with_nonempty_verdict": nonempty, "corpus_runs": corpus_runs, "runs_with_internal_pointer_map_orders_permuted": ptr_runs,
                               "runs_at_critical_unsafe_max_depth": crit_runs,
                               "dropped": dict(dropped), "observations": dict(observations),
                               "runs_per_hour": int(st.runs / max(1e-9, time.time() - t0) * 3600), "seeds": [seed]})
    write_evidence("C06", tier, seed, cov, time.time() - t0, len(rep.violations),
                   ["the reference is the run with the zero tape (1 worker, run-to-block schedule, canonical map order)",
                    "map keys whose canonical descriptions tie keep their native relative order (counted in canonical_key_ties)",
                    "internal/pointer map iterations are not permuted in this tier"])
    return rep.finish()


def check_c17(tier, seed):
    t0 = time.time()
    rep = Report("C17")
    bdir = build()
    binary = os.path.join(bdir, "simharness-norace")
    st = Stats()
    nprog, nseeds = (30, 4) if tier == "quick" else (240, 8)
    # every third program has a second package (calls across packages, the chain of package initialisers)
    progs = [sysa.gen_program(seed + 17, i) if i % 3 != 2 else sysa.gen_program_multi(seed + 17, i) for i in range(nprog)]
    checks = collections.Counter()
    sched_sensitive = collections.Counter()

    def look(j, r):
        for k, v in (r.get("c17_checks") or {}).items():
            checks[k] += v
            if k.startswith("global-"):
                sched_sensitive[k] += v
        for v in r.get("c17") or []:
            sig = "c17 " + c17_class(v)

            def pred(rr, cand=None, s=sig):
                return any("c17 " + c17_class(x) == s for x in (rr or {}).get("c17") or [])
            clean = dict(j)
            report_violation(rep, binary, "C17", clean, sig, pred, "run-%d" % j["id"])

    def on_result(j, r, ref):
        if not r.get("died") and not (r.get("sim") or {}).get("aborted"):
            look(j, r)
    jobs, res, dropped = explore(binary, bdir, tier, seed, progs,
                                 [VARIANTS_C06[i] for i in (0, 1, 2, 5)] if tier == "quick" else VARIANTS_C06,
                                 nseeds, st, rep, "C17", on_result)
    for j, r in zip(jobs, res):
        if j.get("_ref") and r and not sysa.classify_hard(r) and not r.get("died"):
            look(j, r)
    cov = st.coverage(RULE_A, {"invariant_facts_checked": dict(checks), "schedule_sensitive_checks": dict(sched_sensitive),
                               "monitor_instants": ["when the analysis returns (eager, on-demand, field-sensitive and backtrace graphs)",
                                                    "after on-demand summary construction steps (every fifth call of RunIntraProcedural outside the parallel pass, at most 25 per run): edge symmetry and global read/write sets; total %d instants" % checks.get("step:monitor-instants", 0)],
                               "dropped": dict(dropped), "runs_per_hour": int(st.runs / max(1e-9, time.time() - t0) * 3600),
                               "seeds": [seed]})
    write_evidence("C17", tier, seed, cov, time.time() - t0, len(rep.violations),
                   ["invariants are evaluated on the graph the run returns; intermediate states between on-demand builds are not observed",
                    "only the global read/write sets are filled concurrently; the rest of the invariant is structural and rides on the simulated runs"])
    return rep.finish()


def check_c05(tier, seed):
    t0 = time.time()
    rep = Report("C05")
    bdir = build()
    binary = os.path.join(bdir, "simharness-norace")
    st = Stats()
    nprog, nseeds = (24, 2) if tier == "quick" else (300, 4)
    rng = Rng(seed ^ 0xC05)
    progs = [sysa.gen_program(seed + 5, i) if i % 2 == 0 else sysa.gen_program_multi(seed + 5, i) for i in range(nprog)]
    # closures created in factory functions, assigned through captured pointers before/after creation (tgen.closurefam)
    for k in range(16 if tier == "quick" else 150):
        progs.append({"kind": "src", "name": "closurefam-%d-%d" % (seed, k), "text": tgen.closurefam(Rng(seed * 53 + k))})
    sim_decided = [  # options that add goroutines, file handles or logger lock traffic
        {"report-summaries": True}, {"report-coverage": True}, {"report-paths": True}, {"report-no-callee-sites": True},
        {"report-summaries": True, "report-coverage": True, "report-paths": True, "report-no-callee-sites": True},
        {"log-level": 5}, {"log-level": 3, "report-summaries": True},
    ]
    ride_along = [
        {"summarize-on-demand": True}, {"pkg-filter": "command-line-arguments"}, {"pkg-filter": "^nomatch$"},
        {"pkg-filter": "m/lib"}, {"pkg-filter": "^m/"},
        {"pkg-filter": "main", "summarize-on-demand": True}, {"summarize-on-demand": True, "report-summaries": True},
    ]
    alarms = [{"max-alarms": 1}, {"max-alarms": 2}, {"max-alarms": 3}, {"max-alarms": 1, "summarize-on-demand": True},
              {"max-alarms": 2, "summarize-on-demand": True}]
    counts = collections.Counter()
    refs = []
    for prog in progs:
        rj = sysa.make_job(len(refs), "taint", prog, {"log-level": 1}, sysa.base_params())
        rj["_prog"], rj["_variant"], rj["_ref"] = prog["name"], "base", True
        refs.append(rj)
    ref_res = run_jobs(binary, refs, timeout=REF_TIMEOUT, progress=2000)
    jobs, meta = [], []
    res0 = []
    for prog, rj, rr in zip(progs, refs, ref_res):
        if rr is not None and rr.get("timeout"):
            counts["reference run slower than %ds: program dropped" % REF_TIMEOUT] += 1
            continue
        ri = len(jobs)
        jobs.append(rj)
        meta.append(None)
        res0.append(rr)
        tmo = max(90, int(40 * ((rr or {}).get("wall_ms", 1000) / 1000.0)))
        for group, optsets in (("sim_decided", sim_decided), ("ride_along", ride_along), ("max_alarms", alarms)):
            for os_ in optsets:
                for si in range(nseeds if group != "ride_along" else max(1, nseeds // 2)):
                    o2 = {"log-level": 1}
                    o2.update(os_)
                    p = sysa.swarm_params(rng)
                    j = sysa.make_job(len(jobs), "taint", prog, o2, p)
                    j["_prog"], j["_variant"], j["_group"], j["_timeout"] = prog["name"], json.dumps(os_, sort_keys=True), group, tmo
                    jobs.append(j)
                    meta.append(ri)
                    res0.append(None)
    todo = [j for j, r in zip(jobs, res0) if r is None]
    done = run_jobs(binary, todo, timeout=240, progress=2000)
    it = iter(done)
    res = [r if r is not None else next(it) for r in res0]
    observations = collections.Counter()
    for j, r, ri in zip(jobs, res, meta):
        hard = sysa.classify_hard(r)
        if hard and not (r or {}).get("died"):
            st.hard[hard.split(":")[0]] += 1
            rep.inconclusive.append("run %d (%s/%s): %s" % (j["id"], j["_prog"], j["_variant"], hard))
            continue
        st.add(j, r)
        if ri is None:
            continue
        ref = res[ri]
        if sysa.classify_hard(ref) or ref.get("died") or ref.get("panic") or (ref.get("sim") or {}).get("aborted"):
            observations["reference without verdict"] += 1
            continue
        if r.get("died") or r.get("panic") or (r.get("sim") or {}).get("aborted"):
            # crashes are C06/C20 material; here they only mean "no verdict under this option set"
            observations["variant run without verdict (crash/abort)"] += 1
            continue
        counts[j["_group"]] += 1
        a, b = set(ref.get("flows") or []), set(r.get("flows") or [])
        sig = None
        if j["_group"] == "max_alarms":
            k = json.loads(j["_variant"])["max-alarms"]
            if not b <= a:
                sig = "max-alarms result is not a subset of the unlimited result"
            elif len(b) > k:
                sig = "max-alarms=%d reported more than k pairs" % k
            elif a and not b:
                sig = "max-alarms result empty although the unlimited result is not"
        elif a != b:
            what = "missing" if a - b else "extra"
            sig = "verdict changes with options %s (%s flows)" % (j["_variant"], what)
        if not sig:
            continue

        def pred(rr, cand=None, s=sig, jj=j, aa=a):
            if rr is None or sysa.classify_hard(rr) or rr.get("died") or rr.get("panic"):
                return False
            bb = set(rr.get("flows") or [])
            if jj["_group"] == "max_alarms":
                k = json.loads(jj["_variant"])["max-alarms"]
                return (not bb <= aa) or len(bb) > k or (bool(aa) and not bb)
            return aa != bb
        # the program text is part of the replay; shrinking it would change the reference, so only tape/params shrink
        report_violation(rep, binary, "C05", j, sig, pred, "run-%d" % j["id"], minimise=False)
    nonempty = sum(1 for j, r in zip(jobs, res) if j.get("_ref") and r and r.get("flows"))
    cov = st.coverage(RULE_A, {"sim_decided": counts["sim_decided"], "ride_along": counts["ride_along"],
                               "max_alarms": counts["max_alarms"], "programs": nprog,
                               "reference_runs_with_nonempty_verdict": nonempty, "observations": dict(observations),
                               "runs_per_hour": int(st.runs / max(1e-9, time.time() - t0) * 3600), "seeds": [seed]})
    write_evidence("C05", tier, seed, cov, time.time() - t0, len(rep.violations),
                   ["sim_decided = option sets that add goroutines/files/logger traffic, compared under adversarial schedules; "
                    "ride_along = summarize-on-demand / pkg-filter variants compared by the same oracle inside the simulator (cross-configuration differential, not schedule search)",
                    "single-package generated programs make pkg-filter nearly vacuous (command-line-arguments is always summarised)"])
    return rep.finish()
