#!/bin/sh
# usage: seedtest.sh <seeded dir name> <property> [more properties...]
# Applies seeded/<dir>/patch.diff to /repo, runs the quick checks, and always restores /repo.
d=/verif/seeded/$1
shift
cd /repo || exit 2
if ! git diff --quiet; then echo "/repo has uncommitted changes" >&2; exit 2; fi
git apply "$d/patch.diff" || { echo "patch does not apply" >&2; exit 2; }
trap 'git -C /repo checkout -- . ; git -C /repo clean -fdq analysis internal cmd' EXIT INT TERM
for p in "$@"; do
  echo "=== $p on $d"
  ( cd /verif && bin/check "$p" --tier quick ) > "/tmp/seedtest-$(basename $d)-$p.log" 2>&1
  echo "exit=$?"
  grep -E "^VIOLATION|^KNOWN-FINDING|signature" "/tmp/seedtest-$(basename $d)-$p.log" | cut -c1-220 | head -8
done
