#!/bin/sh
# usage: seedtest.sh <seeded dir name> <property> [more properties...]
# Runs the quick checks against a scratch worktree of /repo's HEAD with seeded/<dir>/patch.diff applied
# (VERIF_REPO points the checks at it), so that /repo itself and background runs using it are not disturbed.
# The documented alternative is: git -C /repo apply <patch>; bin/check ...; git -C /repo checkout -- .
d=/verif/seeded/$1
shift
wt=/tmp/seedwt-$$
git -C /repo worktree add -q --detach "$wt" HEAD || exit 2
trap 'git -C /repo worktree remove --force "$wt" >/dev/null 2>&1' EXIT INT TERM
git -C "$wt" apply "$d/patch.diff" || { echo "patch does not apply" >&2; exit 2; }
for p in "$@"; do
  echo "=== $p on $d"
  ( cd /verif && VERIF_REPO="$wt" VERIF_EVIDENCE_DIR="/tmp/seedtest-evidence" VERIF_REPLAY_DIR="/tmp/seedtest-replays" bin/check "$p" --tier quick ) > "/tmp/seedtest-$(basename $d)-$p.log" 2>&1
  echo "exit=$?"
  grep -E "^VIOLATION|^KNOWN-FINDING|signature" "/tmp/seedtest-$(basename $d)-$p.log" | cut -c1-220 | head -8
done
