"""tgen: seeded generator of import-free sequential Go programs for the analyser (system A).
The programs are never executed; they only have to type-check and to exercise the analyser's
summary construction, global read/write sets, closures, interfaces, tuples and defers."""

CONFIG = '''taint-tracking-problems:
  - sources:
      - package: "(main)|(command-line-arguments)"
        method: "^source[0-9]*$"
    sinks:
      - package: "(main)|(command-line-arguments)"
        method: "^sink[0-9]*$"
    sanitizers:
      - package: "(main)|(command-line-arguments)"
        method: "^sanitize[0-9]*$"
slicing-problems:
  - backtracepoints:
      - package: "(main)|(command-line-arguments)"
        method: "^sink[0-9]*$"
'''

PRELUDE = '''package main

type In struct {
	x string
	y string
}

type S struct {
	f  string
	g  string
	n  *S
	m  map[string]string
	l  []string
	h  func(string) string
	in In
	v  any
}

type I interface {
	M(x string) string
	N(s *S)
}

type A struct{ a string }

func (r *A) M(x string) string { r.a = x; return r.a }
func (r *A) N(s *S)            { s.f = r.a }

type B struct{ b *S }

func (r B) M(x string) string { return "b" + r.b.g }
func (r B) N(s *S)            { r.b.n = s }

type C struct{}

func (C) M(x string) string { return sanitize1(x) }
func (C) N(s *S)            { sink1(s.g) }

func source1() string      { return "s1" }
func source2() string      { return "s2" }
func source3() *S          { return &S{f: "s3"} }
func sink1(x any)          {}
func sink2(x ...any)       {}
func sanitize1(x string) string { return "" }
func cond() bool           { return len(G0) > 3 }
func pair(x string, y string) (string, string) { return y, x }
func triple(x string) (string, *S, error) { return x, &S{g: x}, nil }

var G0 string
var G1 string
var GS *S = &S{}
var GA [4]string
var GM = map[string]string{}
var GL []string
var GF func(string) string
var GI I = C{}
var GC = make(chan string, 4)
var GP = &G1
'''


LIB = '''package lib

// A second package: with a pkg-filter that does not match it, its functions are not summarised eagerly.

var Store string

type T struct{ F string }

var Obj = &T{}

func Sink1(x any)            {}
func Put(x string)           { Store = x }
func Get() string            { return Store }
func PutF(x string)          { Obj.F = x }
func GetF() string           { return Obj.F }
func Relay(x string) string  { return x }
func Audit()                 { Sink1(Store) }
func AuditF()                { Sink1(Obj.F) }
func Chain(x string) string  { Put(x); return Get() }
func Keep(x string) func() string { return func() string { return x + Store } }
'''

CONFIG_MULTI = CONFIG.replace('"(main)|(command-line-arguments)"', '".*"').replace('"^sink[0-9]*$"', '"^(s|S)ink[0-9]*$"')


class FuncGen:
    def __init__(self, g, idx):
        self.g = g
        self.rng = g.rng
        self.idx = idx
        self.n = 0
        self.lines = []
        self.strs = []
        self.structs = []
        self.funcs0 = []  # func() string
        self.funcs1 = []  # func(string) string
        self.ifaces = []
        self.slices = []
        self.maps = []
        self.indent = 1

    def fresh(self, p="v"):
        self.n += 1
        return "%s%d" % (p, self.n)

    def emit(self, s):
        self.lines.append("\t" * self.indent + s)

    # ---- expressions
    def s(self, depth=0):
        r = self.rng
        opts = ["var", "var", "var", "lit", "global", "field", "concat"]
        if depth < 2:
            opts += ["call", "call", "source", "index", "mapread", "closurecall", "iface", "gfield", "deref", "conv"]
        k = r.pick(opts)
        if self.g.lib and depth < 2 and r.chance(12):
            return r.pick(["lib.Get()", "lib.GetF()", "lib.Store", "lib.Relay(%s)" % self.s(depth + 1),
                           "lib.Chain(%s)" % self.s(depth + 1), "lib.Keep(%s)()" % self.s(depth + 1), "lib.Obj.F"])
        if k == "var" and self.strs:
            return r.pick(self.strs)
        if k == "lit":
            return '"c%d"' % r.below(5)
        if k == "global":
            return r.pick(["G0", "G1", "GA[%d]" % r.below(4), 'GM["k%d"]' % r.below(2), "GS.f", "GS.g", "GS.n.f"])
        if k == "field" and self.structs:
            return r.pick(self.structs) + "." + r.pick(["f", "g", "n.f", "n.g", 'm["a"]', "l[0]"])
        if k == "concat":
            return self.s(depth + 1) + " + " + self.s(depth + 1)
        if k == "call":
            callee = r.below(self.g.nfuncs)
            c = "f%d(%s, %s)" % (callee, self.s(depth + 1), self.st(depth + 1))
            if r.chance(25):
                return c + " + " + r.pick(["G0", "G1"])
            return c
        if k == "source":
            return r.pick(["source1()", "source2()", "source3().f"])
        if k == "index" and self.slices:
            return r.pick(self.slices) + "[%d]" % r.below(2)
        if k == "mapread" and self.maps:
            return r.pick(self.maps) + '["k%d"]' % r.below(2)
        if k == "closurecall":
            if self.funcs0 and r.chance(50):
                return r.pick(self.funcs0) + "()"
            if self.funcs1:
                return r.pick(self.funcs1) + "(" + self.s(depth + 1) + ")"
            return "GF(" + self.s(depth + 1) + ")"
        if k == "iface":
            if self.ifaces:
                return r.pick(self.ifaces) + ".M(" + self.s(depth + 1) + ")"
            return "GI.M(" + self.s(depth + 1) + ")"
        if k == "gfield":
            return "GL[%d]" % r.below(2)
        if k == "conv":
            return "string([]byte(" + self.s(depth + 1) + "))"
        if k == "deref" and self.strs:
            return "*(&" + r.pick(self.strs) + ")"
        if self.strs:
            return r.pick(self.strs)
        return '"d"'

    def st(self, depth=0):
        r = self.rng
        opts = ["var", "var", "global", "new"]
        if depth < 2:
            opts += ["next", "src"]
        k = r.pick(opts)
        if k == "var" and self.structs:
            return r.pick(self.structs)
        if k == "global":
            return "GS"
        if k == "new":
            return "&S{f: %s, g: %s}" % (self.s(depth + 1), self.s(depth + 1))
        if k == "next" and self.structs:
            return r.pick(self.structs) + ".n"
        if k == "src":
            return "source3()"
        return "GS"

    # ---- statements
    def stmt(self, depth=0):
        r = self.rng
        kinds = ["decl", "decl", "assign", "sink", "sink", "nest", "nest", "fanin", "gwrite", "gwrite", "fwrite", "selfcopy", "gptr", "call", "closure0", "closure1",
                 "iface", "tuple", "slice", "map", "ptr", "chan", "gfunc", "sdecl", "awrite", "mwrite", "lwrite",
                 "ifacecall", "sanit", "triple"]
        if depth < 2:
            kinds += ["if", "if", "for", "defer", "switch", "rangemap"]
        k = r.pick(kinds)
        if self.g.lib and r.chance(15):
            self.emit(r.pick(["lib.Put(%s)" % self.s(), "lib.PutF(%s)" % self.s(), "lib.Store = %s" % self.s(),
                              "lib.Audit()", "lib.AuditF()", "lib.Obj.F = %s" % self.s(), "lib.Sink1(%s)" % self.s()]))
            return
        if k == "decl":
            v = self.fresh()
            self.emit("%s := %s" % (v, self.s()))
            self.emit("_ = %s" % v)
            self.strs.append(v)
        elif k == "assign" and self.strs:
            self.emit("%s = %s" % (r.pick(self.strs), self.s()))
        elif k == "sink":
            what = r.pick(["s", "s", "st", "sl", "multi", "field"])
            if what == "s":
                self.emit("sink1(%s)" % self.s())
            elif what == "st":
                self.emit("sink1(%s)" % self.st())
            elif what == "sl" and self.slices:
                self.emit("sink1(%s)" % r.pick(self.slices))
            elif what == "multi":
                self.emit("sink2(%s, %s)" % (self.s(), self.st()))
            else:
                self.emit("sink1((%s).n)" % self.st())
        elif k == "gwrite":
            self.emit("%s = %s" % (r.pick(["G0", "G1", "GS.f", "GS.g"]), self.s()))
        elif k == "awrite":
            self.emit("GA[%d] = %s" % (r.below(4), self.s()))
        elif k == "mwrite":
            self.emit('GM["k%d"] = %s' % (r.below(2), self.s()))
        elif k == "lwrite":
            self.emit("GL = append(GL, %s)" % self.s())
        elif k == "fwrite":
            t = self.st()
            if t.startswith("&") or t.endswith(")"):
                t = "GS"
            self.emit("%s.%s = %s" % (t, r.pick(["f", "g"]), self.s()))
        elif k == "nest" and self.structs:
            # nested struct values and interface-typed fields: access paths with a non-leaf prefix (.in and .in.x)
            t = r.pick(self.structs)
            c = r.below(7)
            if c == 0:
                self.emit("%s.in.x = %s" % (t, self.s()))
            elif c == 1:
                self.emit("%s.in = In{x: %s, y: %s}" % (t, self.s(1), self.s(1)))
            elif c == 2:
                self.emit("%s.v = In{x: %s, y: %s}" % (t, self.s(1), self.s(1)))
            elif c == 3:
                self.emit("%s.in = %s.v.(In)" % (t, r.pick(self.structs)))
            elif c == 4:
                self.emit("sink1(%s.in.y)" % t)
            elif c == 5:
                self.emit("sink1(%s.in)" % t)
            else:
                self.emit("%s.in.y = %s.in.x + %s" % (t, r.pick(self.structs), self.s(1)))
        elif k == "fanin":
            # several distinct source call sites reach one sink call
            n = 3 + r.below(3)
            parts = [r.pick(["source1()", "source2()", "source3().f"]) for _ in range(n)]
            self.emit("sink1(%s)" % " + ".join(parts))
        elif k == "gptr":
            # one instruction that mentions two globals (a pointer-typed global and the global it points to)
            c = r.below(4)
            if c == 0:
                self.emit("GP = &%s" % r.pick(["G0", "G1"]))
            elif c == 1:
                self.emit("*GP = %s" % self.s())
            elif c == 2:
                self.emit("sink1(*GP)")
            else:
                self.emit("%s = %s; GP = &%s" % ("G0", self.s(), "G0"))
        elif k == "selfcopy" and self.structs:
            # data moved between two access paths of one pointer (a self edge of the parameter node when the
            # pointer is a parameter and the analysis is field sensitive)
            t = r.pick(self.structs)
            self.emit("%s.%s = %s.%s" % (t, r.pick(["f", "g"]), t, r.pick(["f", "g", "n.f", 'm["a"]', "l[0]"])))
        elif k == "call":
            self.emit("f%d(%s, %s)" % (r.below(self.g.nfuncs), self.s(), self.st()))
        elif k == "closure0":
            v = self.fresh("c")
            self.emit("%s := func() string { return %s }" % (v, self.s()))
            self.emit("_ = %s()" % v if r.chance(70) else "_ = %s" % v)
            self.funcs0.append(v)
        elif k == "closure1":
            v = self.fresh("d")
            body = r.pick(["return x + %s" % self.s(1), "G1 = x; return %s" % self.s(1), "sink1(x); return x",
                           "return sanitize1(x)"])
            self.emit("%s := func(x string) string { %s }" % (v, body))
            self.emit("_ = %s(%s)" % (v, self.s(1)) if r.chance(70) else "_ = %s" % v)
            self.funcs1.append(v)
        elif k == "gfunc":
            if self.funcs1 and r.chance(60):
                self.emit("GF = %s" % r.pick(self.funcs1))
            else:
                self.emit("GF = func(x string) string { return x + %s }" % self.s(1))
        elif k == "iface":
            v = self.fresh("i")
            impl = r.pick(["&A{a: %s}" % self.s(1), "B{b: %s}" % self.st(1), "C{}"])
            self.emit("var %s I = %s" % (v, impl))
            self.emit("_ = %s" % v)
            self.ifaces.append(v)
            if r.chance(30):
                self.emit("GI = %s" % v)
        elif k == "ifacecall":
            tgt = r.pick(self.ifaces) if self.ifaces else "GI"
            self.emit("%s.N(%s)" % (tgt, self.st()))
        elif k == "tuple":
            a, b = self.fresh(), self.fresh()
            self.emit("%s, %s := pair(%s, %s)" % (a, b, self.s(), self.s()))
            self.emit("_, _ = %s, %s" % (a, b))
            self.strs += [a, b]
        elif k == "triple":
            a, b = self.fresh(), self.fresh("t")
            self.emit("%s, %s, _ := triple(%s)" % (a, b, self.s()))
            self.emit("_, _ = %s, %s" % (a, b))
            self.strs.append(a)
            self.structs.append(b)
        elif k == "slice":
            v = self.fresh("l")
            self.emit("%s := []string{%s, %s}" % (v, self.s(), self.s()))
            self.emit("%s = append(%s, %s)" % (v, v, self.s()))
            self.slices.append(v)
        elif k == "map":
            v = self.fresh("m")
            self.emit('%s := map[string]string{"k0": %s}' % (v, self.s()))
            self.emit('%s["k1"] = %s' % (v, self.s()))
            self.maps.append(v)
        elif k == "ptr" and self.strs:
            v = self.fresh("p")
            self.emit("%s := &%s" % (v, r.pick(self.strs)))
            self.emit("*%s = %s" % (v, self.s()))
        elif k == "chan":
            if r.chance(50):
                self.emit("GC <- %s" % self.s())
            else:
                v = self.fresh()
                self.emit("%s := <-GC" % v)
                self.emit("_ = %s" % v)
                self.strs.append(v)
        elif k == "sdecl":
            v = self.fresh("t")
            self.emit("%s := %s" % (v, self.st()))
            self.emit("_ = %s" % v)
            self.structs.append(v)
            if r.chance(40):
                self.emit("%s.n = %s" % (v, self.st()))
            if r.chance(20):
                self.emit("GS = %s" % v)
        elif k == "sanit":
            v = self.fresh()
            self.emit("%s := sanitize1(%s)" % (v, self.s()))
            self.emit("_ = %s" % v)
            self.strs.append(v)
        elif k in ("if", "for", "switch", "rangemap"):
            saved = (len(self.strs), len(self.structs), len(self.funcs0), len(self.funcs1), len(self.ifaces),
                     len(self.slices), len(self.maps))
            if k == "if":
                self.emit("if cond() {")
            elif k == "for":
                self.emit("for k%d := 0; k%d < 2; k%d++ {" % (self.n, self.n, self.n))
            elif k == "switch":
                self.emit("switch {")
                self.emit("case cond():")
            else:
                self.emit("for rk, rv := range GM {")
                self.indent += 1
                self.emit("sink1(rk + rv)")
                self.indent -= 1
            self.indent += 1
            for _ in range(1 + r.below(3)):
                self.stmt(depth + 1)
            self.indent -= 1
            self._restore(saved)
            if k == "if" and r.chance(50):
                self.emit("} else {")
                self.indent += 1
                for _ in range(1 + r.below(2)):
                    self.stmt(depth + 1)
                self.indent -= 1
                self._restore(saved)
            if k == "switch":
                self.emit("default:")
                self.indent += 1
                self.stmt(depth + 1)
                self.indent -= 1
                self._restore(saved)
            self.emit("}")
        elif k == "defer":
            self.emit("defer func() { %s }()" % r.pick(["sink1(%s)" % self.s(1), "G0 = %s" % self.s(1),
                                                        "GS.g = %s" % self.s(1)]))
        else:
            self.emit("sink1(%s)" % self.s())

    def _restore(self, saved):
        a, b, c, d, e, f, g = saved
        del self.strs[a:], self.structs[b:], self.funcs0[c:], self.funcs1[d:], self.ifaces[e:], self.slices[f:]
        del self.maps[g:]


class Program:
    def __init__(self, rng, nfuncs=None, stmts=None, lib=False):
        self.rng = rng
        self.lib = lib
        self.nfuncs = nfuncs or (2 + rng.below(6))
        self.stmts = stmts or (2 + rng.below(6))

    def text(self):
        out = [PRELUDE.replace("package main\n", 'package main\n\nimport "m/lib"\n\nvar _ = lib.Store\n', 1) if self.lib else PRELUDE]
        for i in range(self.nfuncs):
            fg = FuncGen(self, i)
            fg.strs = ["p"]
            fg.structs = ["q"]
            for _ in range(1 + self.rng.below(self.stmts)):
                fg.stmt()
            out.append("func f%d(p string, q *S) string {" % i)
            out += fg.lines
            if self.rng.chance(35) and fg.strs:
                # the returned value is also published through a global: two routes of equal length to the caller
                v = self.rng.pick(fg.strs)
                out.append("\t%s = %s" % (self.rng.pick(["G0", "G1"]), v))
                out.append("\treturn %s" % v)
            else:
                out.append("\treturn %s" % fg.s(1))
            out.append("}\n")
        fg = FuncGen(self, -1)
        x = fg.fresh()
        fg.emit("%s := source1()" % x)
        fg.emit("_ = %s" % x)
        fg.strs.append(x)
        for _ in range(2 + self.rng.below(self.stmts + 2)):
            fg.stmt()
        # every function is called from main, so that the whole program is reachable
        order = list(range(self.nfuncs))
        for i in range(len(order) - 1, 0, -1):
            k = self.rng.below(i + 1)
            order[i], order[k] = order[k], order[i]
        for i in order:
            fg.emit("sink1(f%d(%s, %s))" % (i, fg.s(1), fg.st(1)) if self.rng.chance(40)
                    else "f%d(%s, %s)" % (i, fg.s(1), fg.st(1)))
        out.append("func main() {")
        out += fg.lines
        out.append("}\n")
        return "\n".join(out)


def generate(rng, **kw):
    return Program(rng, **kw).text()


def diamond(rng):
    """Program family: tainted data reaches one node by two routes of equal hop count - one through r nested
    function returns, one through a global (or a field of a shared object) - and then travels t more calls to a
    sink. Depth-limited traversals are sensitive to which route is explored first."""
    r = 1 + rng.below(3)
    t = rng.below(4)
    via = rng.pick(["global", "global", "field"])
    out = ["package main", "", "type S struct{ f string }", "", "var G string", "var GS = &S{}", "",
           'func source1() string { return "s" }', "func sink1(x any)      {}", ""]
    store = "G = s" if via == "global" else "GS.f = s"
    load = "G" if via == "global" else "GS.f"
    out += ["func get0() string {", "\ts := source1()", "\t" + store, "\treturn s", "}", ""]
    for i in range(1, r + 1):
        out += ["func get%d() string {" % i, "\treturn get%d()" % (i - 1), "}", ""]
    for i in range(t):
        out += ["func pass%d(s string) string {" % i, "\treturn s", "}", ""]
    out += ["func main() {"]
    if rng.chance(50):
        out += ["\tv := get%d() + %s" % (r, load)]
    else:
        out += ["\tv := %s + get%d()" % (load, r)]
    cur = "v"
    for i in range(t):
        out += ["\tw%d := pass%d(%s)" % (i, i, cur)]
        cur = "w%d" % i
    out += ["\tsink1(%s)" % cur, "}", ""]
    return "\n".join(out)


def pathfam(rng):
    """Program family for field-sensitive access paths: one summary edge whose output paths include a non-leaf
    path and extensions of it (o.in and o.in.x from one parameter), read back through sibling sub-fields. Two styles:
    a carrier struct returned by the source and a local struct value passed on by value; or pointers throughout."""
    by_value = rng.chance(60)
    fills = ["o.in = c.v.(inner)", "o.in.x = c.w", "o.in.y = c.w", "o.z = c.w", "o.in = inner{x: c.w, y: c.u}",
             "o.in.x = c.u", 'o.z = "ok"']
    if not by_value:
        fills += ["o.p.in = c.v.(inner)", "o.p.in.y = c.w"]
    n = 2 + rng.below(3)
    chosen = [rng.pick(fills) for _ in range(n)]
    if rng.chance(50):
        chosen = ["o.in = c.v.(inner)", rng.pick(["o.in.x = c.w", "o.in.y = c.u", "o.in.x = c.u"])] + chosen[:1]
    uses = ["o.in.y", "o.in.x", "o.in", "o.z"] + ([] if by_value else ["o.p.in.x", "o.p.in"])
    nuse = 1 + rng.below(3)
    # the sibling of a sub-field that is written next to the whole struct is the interesting read
    forced = []
    if "o.in = c.v.(inner)" in chosen:
        if any(c.startswith("o.in.x") for c in chosen):
            forced.append("o.in.y")
        if any(c.startswith("o.in.y") for c in chosen):
            forced.append("o.in.x")
    out = ["package main", "",
           "type inner struct{ x, y string }",
           "type outer struct {", "\tin inner", "\tz  string", "\tp  *outer", "}",
           "type carrier struct {", "\tv any", "\tw string", "\tu string", "}", "",
           'func source1() carrier { return carrier{v: inner{x: "s", y: "s"}, w: "s", u: "s"} }',
           "func sink1(x any)        {}", ""]
    if by_value:
        for k in range(nuse):
            out += ["func use%d(o outer) {" % k, "\tsink1(%s)" % (forced[k] if k < len(forced) else rng.pick(uses)), "}", ""]
        out += ["func repack(c carrier) {", "\tvar o outer"]
        out += ["\t" + f for f in chosen]
        out += ["\tuse%d(o)" % k for k in range(nuse)]
        out += ["}", "", "func main() {", "\tc := source1()", "\trepack(c)", "}", ""]
    else:
        out += ["func fill(o *outer, c carrier) {"]
        out += ["\t" + f for f in chosen]
        out += ["}", ""]
        for k in range(nuse):
            out += ["func use%d(o *outer) {" % k, "\tsink1(%s)" % (forced[k] if k < len(forced) else rng.pick(uses)), "}", ""]
        out += ["func main() {", "\tc := source1()", "\to := &outer{p: &outer{}}", "\tfill(o, c)"]
        out += ["\tuse%d(o)" % k for k in range(nuse)]
        out += ["}", ""]
    return "\n".join(out)


def closurefam(rng):
    """Program family around closures whose summaries are built late: closures created in factory functions (one
    factory per variable, or one shared by several), capturing a pointer to a caller's local; the local is assigned
    before or after the closure is created (the second reaches the closure body only through the bound-label
    mechanism); reader, writer and getter closures; a bound method value and an interface method callee. The
    statements live in main or in a helper called from main. With summaries built on demand the closure's summary is
    built while the traversal is already under way."""
    n = 2 + rng.below(3)
    extra = rng.below(4)
    out = ["package main", ""]
    if extra:
        # declared only when used: the analyser is not exercised on unreachable methods here (8.2, observations)
        out += ["type S struct{ f string }", "type I interface{ Do(x string) }",
                "type A struct{ s *S }", "func (a A) Do(x string) { a.s.f = x }",
                "type B struct{}", "func (B) Do(x string) { sink1(x) }", ""]
    out += ['func source1() string { return "s" }', 'func source2() string { return "t" }',
            "func sink1(x any)      {}", ""]
    body = []
    decl = {}
    kinds = []
    shared = rng.chance(30)
    for i in range(n):
        k = rng.pick(["sink", "sink", "get", "write", "inline"])
        kinds.append(k)
        fi = 0 if (shared and k == "sink") else i
        if k == "sink":
            decl["mk%d" % fi] = "func mk%d(p *string) func() {\n\treturn func() { sink1(*p) }\n}" % fi
        elif k == "get":
            decl["mkg%d" % i] = "func mkg%d(p *string) func() string {\n\treturn func() string { return *p }\n}" % i
        elif k == "write":
            decl["mkw%d" % i] = "func mkw%d(p *string) func(string) {\n\treturn func(x string) { *p = x }\n}" % i
        body.append('v%d := "c%d"' % (i, i))
    src = rng.pick(["s", "s", "source2()"])
    body.append("s := source1()")
    body.append("_ = s")
    early = [rng.chance(35) for _ in range(n)]
    for i in range(n):
        if early[i]:
            body.append("v%d = %s" % (i, src if rng.chance(80) else '"clean"'))
    for i, k in enumerate(kinds):
        fi = 0 if (shared and k == "sink") else i
        if k == "sink":
            body.append("c%d := mk%d(&v%d)" % (i, fi, i))
        elif k == "get":
            body.append("c%d := mkg%d(&v%d)" % (i, i, i))
        elif k == "write":
            body.append("c%d := mkw%d(&v%d)" % (i, i, i))
        else:
            body.append("c%d := func() { sink1(v%d) }" % (i, i))
    order = list(range(n))
    for i in range(n - 1, 0, -1):
        j = rng.below(i + 1)
        order[i], order[j] = order[j], order[i]
    for i in order:
        if not early[i] and kinds[i] != "write":
            body.append("v%d = %s" % (i, src if rng.chance(85) else '"clean"'))
    calls = []
    for i, k in enumerate(kinds):
        if k in ("sink", "inline"):
            calls.append("c%d()" % i)
        elif k == "get":
            calls.append("sink1(c%d())" % i)
        else:
            calls.append("c%d(%s)" % (i, src))
            calls.append("sink1(v%d)" % i)
    for i in range(len(calls) - 1, 0, -1):
        j = rng.below(i + 1)
        if not (calls[i].startswith("sink1(v") or calls[j].startswith("sink1(v")):
            calls[i], calls[j] = calls[j], calls[i]
    body += calls
    if extra == 1:
        body += ["a := A{&S{}}", "m := a.Do", "m(%s)" % src, "sink1(a.s.f)"]
    elif extra == 2:
        body += ["var i I = B{}", "if len(v0) > 5 {", "\ti = A{&S{}}", "}", "i.Do(%s)" % src]
    elif extra == 3:
        body += ["m := B{}.Do", "m(v0)"]
    for name in sorted(decl):
        out += [decl[name], ""]
    if rng.chance(50):
        out += ["func run() {"] + ["\t" + b for b in body] + ["}", "", "func main() {", "\trun()", "}", ""]
    else:
        out += ["func main() {"] + ["\t" + b for b in body] + ["}", ""]
    return "\n".join(out)


def indirectfam(rng):
    """Program family for the escape analysis' indirect calls: a function value that is, depending on a branch, a
    closure allocated locally (storing its argument into a captured local object) or a function from elsewhere (a
    parameter, a field of a parameter, a package-level variable); the call sits in a loop or not; the captured object is
    then published (global, return value) or not. The transfer function of such a call must stay monotone when the
    function value gains a non-local pointee, and loops must reach the same fixpoint in every block order."""
    out = ["package main", "",
           "type T struct{ v int }", "type Box struct {", "\tp *T", "\tq *T", "}", "type Holder struct{ f func(*T) }", "",
           "var sink *Box", "var keep *T", "var GFn func(*T)", "",
           "func cond() bool      { return sink == nil }", "func retain(p *T)     { keep = p }", ""]
    nrun = 1 + rng.below(2)
    calls = []
    for k in range(nrun):
        local_body = rng.pick(["box.p = p", "box.p = p", "box.q = p", "box.q = box.p; box.p = p", "box.p = p; p.v++"])
        alt = rng.pick(["holder.f", "holder.f", "GFn", "fp"])
        second_local = rng.chance(30)
        loop = rng.pick(["for", "for", "none", "twice"])
        publish = rng.pick(["sink = box", "sink = box", "return", "keep = box.p", "none"])
        ret = " *Box" if publish == "return" else ""
        out += ["func run%d(holder *Holder, fp func(*T), x *T, c bool, n int)%s {" % (k, ret),
                "\tbox := &Box{}",
                "\th := func(p *T) { %s }" % local_body,
                "\tif c {", "\t\th = %s" % alt, "\t}"]
        if second_local:
            out += ["\tif n > 7 {", "\t\th = func(p *T) { box.q = p }", "\t}"]
        if loop == "for":
            out += ["\tfor i := 0; i < n; i++ {", "\t\th(x)", "\t}"]
        elif loop == "twice":
            out += ["\th(x)", "\th(box.p)" if rng.chance(50) else "\th(x)"]
        else:
            out += ["\th(x)"]
        if publish == "return":
            out += ["\treturn box"]
        elif publish != "none":
            out += ["\t" + publish]
        else:
            out += ["\t_ = box"]
        out += ["}", ""]
        arg = rng.pick(["harmless", "harmless", "retain", "GFn"])
        hold = rng.pick(["harmless", "retain"])
        call = "run%d(&Holder{f: %s}, %s, x, cond(), 3)" % (k, hold, arg)
        calls.append("b%d := %s" % (k, call) if publish == "return" else call)
        if publish == "return":
            calls.append(rng.pick(["sink = b%d" % k, "_ = b%d" % k, "keep = b%d.p" % k]))
    out += ["func main() {", "\tx := &T{}", "\ttotal := 0",
            "\tharmless := func(p *T) { total += p.v }",
            "\tGFn = %s" % rng.pick(["retain", "harmless"])]
    out += ["\t" + c for c in calls]
    out += ["\tx.v = 1", "\t_ = total", "\t_ = harmless", "\tretain(&T{})", "}", ""]
    return "\n".join(out)


def handlerfam(rng, style=None):
    """Program family with many small functions, each with its own source-to-sink flow: 40..70 handlers whose source
    node gets a different node id through 0..30 padding calls. Every flow has its own entry point, so anything keyed
    by (summary id, node id) - entry points, visited sets - is exercised with many distinct ids, and the summary ids
    themselves depend on which worker builds which summary first. Sources are calls or reads of a source *field*
    (an entry point that is not a call node). Returns (text, config)."""
    n = 40 + rng.below(31)
    picked = rng.pick(["call", "fieldsrc", "fieldsrc", "field"])
    style = style or picked
    out = ["package main", "", "type T struct {", "\tSrc string", "\tn   int", "}", "",
           'func source1() string { return "s" }', "func sink1(x any)      {}", "func nop(i int)        {}", ""]
    for k in range(n):
        pad = rng.pick([0, 0, 1, 2, 3, 5, 8, 12, 20, 30]) if rng.chance(60) else rng.below(31)
        out.append("func handler%d(t *T) {" % k)
        for i in range(pad):
            out.append("\tnop(%d)" % i)
        if style == "call":
            out += ["\tx := source1()", "\tsink1(x)"]
        elif style == "fieldsrc":
            out += ["\tsink1(t.Src)"]
        else:
            out += ["\tt.n++", "\tx := source1()", "\tsink1(x)"]
        out += ["}", ""]
    out += ["func main() {", '\tt := &T{Src: source1(), n: 1}']
    out += ["\thandler%d(t)" % k for k in range(n)]
    out += ["}", ""]
    config = CONFIG
    if style == "fieldsrc":
        config = CONFIG.replace('        method: "^source[0-9]*$"\n',
                                '        method: "^source_never$"\n      - package: "(main)|(command-line-arguments)"\n        field: "Src"\n', 1)
    return "\n".join(out), config
