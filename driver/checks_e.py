"""C15: the escape analysis as a work-queue system under the simulator."""
import collections
import json
import os
import time

from common import (Rng, Report, build, run_jobs, run_one, log, write_evidence, make_tape, trim_tape, REPO, REAL, STUB)
import sysa
import checks_a
from checks_a import Stats, report_violation, root_of

ESC_TESTDATA = ["builtins-escape", "simple-escape", "trivial"]

RULE_E = ("one case = one run of the escape analysis on one program under one tape: the tape picks the next block of "
          "a function's work queue, the next function of the program work queue and the order of every map iteration. "
          "Distinct = (program, work-queue/map-order fingerprint) differ; non-trivial = at least one pick among >= 2 "
          "candidates or one map iteration with >= 2 keys was permuted.")


def escape_params(rng, calm=False):
    p = sysa.base_params()
    if calm:
        return p
    p["tape"] = make_tape(rng, 60000, rng.pick(["uniform", "uniform", "sticky"]))
    p["worklist_perm_pct"] = rng.pick([100, 100, 100, 50])
    p["map_perm_pct"] = rng.pick([0, 0, 30, 100])
    p["map_salt"] = rng.next() & 0xFFFFFFFF
    return p


def esc_job(jid, prog, params, laws=0, mono=False, lawseed=1, keep_func_order=False):
    j = sysa.make_job(jid, "escape", prog, {"log-level": 1}, params)
    j["laws"], j["mono_check"], j["law_seed"] = laws, mono, lawseed
    j["keep_func_order"] = keep_func_order
    j["_prog"] = prog["name"]
    return j


def esc_diff(ref, got):
    """How the fixpoint of a run differs from the reference fixpoint (None if equal)."""
    a, b = ref.get("escape") or {}, got.get("escape") or {}
    if bool(a.get("err")) != bool(b.get("err")):
        return "error status"
    if sorted(a.get("summarized") or []) != sorted(b.get("summarized") or []):
        return "set of summarised functions"
    if sorted(a.get("overflow") or []) != sorted(b.get("overflow") or []):
        return "summaries abandoned for size"
    la, lb = a.get("locality") or {}, b.get("locality") or {}
    if la != lb and not a.get("walk_truncated") and not b.get("walk_truncated"):
        ks = sorted(k for k in set(la) | set(lb) if la.get(k) != lb.get(k))
        return "locality verdicts (%d instructions, e.g. %s: %s vs %s)" % (len(ks), ks[0], la.get(ks[0]), lb.get(ks[0]))
    ha, hb = a.get("hashes") or {}, b.get("hashes") or {}
    if ha != hb:
        ks = sorted(k for k in set(ha) | set(hb) if ha.get(k) != hb.get(k))
        return "summary shape of %s" % ks[0]
    return None


FUNC_ORDER_TAG = " [function work-queue order permuted]"


def esc_signatures(r, ref=None, job=None):
    """job: when given, order-dependent signatures of runs in which the *function* work queue was permuted carry a tag
    (a recorded known finding concerns exactly those; with the function order the analysis uses, block-queue and
    map-order permutations must still leave the fixpoint unchanged)."""
    tag = ""
    if job is not None and job.get("params", {}).get("worklist_perm_pct") and not job.get("keep_func_order"):
        tag = FUNC_ORDER_TAG
    out = []
    if r is None:
        return out
    if r.get("died") or r.get("panic") or (r.get("sim") or {}).get("aborted"):
        txt = r.get("panic") or r.get("stderr") or json.dumps((r.get("sim") or {}).get("panics"))
        return ["escape analysis crashed: " + sysa.short_panic(txt)[:160]]
    e = r.get("escape") or {}
    for nf in e.get("not_fixpoint") or []:
        cls = nf.split(": ", 1)[1] if ": " in nf else "graph changes"
        out.append("analysis stopped before a fixpoint: re-processing a block changes its graph (%s)" % cls + tag)
    for m in e.get("monotonicity") or []:
        import re
        if m.startswith("self-check:"):
            # the repository's dormant self-check compares graphs by node identity across re-summarisations; it
            # fires on renamed load nodes (see DESIGN 8.3) and is recorded as an observation, not as a verdict
            continue
        out.append(re.sub(r" in \S+", "", m).split(" (")[0])
    for l in e.get("laws") or []:
        out.append("law violated: " + l.split(" in ")[0])
    if ref is not None:
        d = esc_diff(ref, r)
        if d:
            out.append("fixpoint depends on processing order: " + d.split(" (")[0].split(" of ")[0] + tag)
    return sorted(set(out))


def observe(binary, job):
    r = run_one(binary, {k: v for k, v in job.items() if not k.startswith("_")}, timeout=900)
    rj = checks_a.ref_job_of(job)
    rj["mono_check"], rj["laws"] = False, 0
    r0 = run_one(binary, rj, timeout=900)
    if r is None or r0 is None or sysa.classify_hard(r) or sysa.classify_hard(r0):
        return ["no verdict"]
    if r0.get("panic") or r0.get("died"):
        return ["crash under the calm order too (not a C15 matter)"]
    return esc_signatures(r, r0, job)


def run_replay(prop, path):
    payload = json.load(open(path))
    bdir = build()
    binary = os.path.join(bdir, "simharness-norace")
    sigs = observe(binary, payload["job"])
    print("replay of %s" % path)
    print("expected signature: %s" % payload.get("signature"))
    for s in sigs:
        print("observed: %s" % s)
    if payload.get("signature") in sigs:
        print("VIOLATION property=%s replay=%s" % (prop, path))
        return 1
    print("the recorded violation did not reproduce on the current tree")
    return 0


def programs(tier, seed):
    import cgen
    nprog = 30 if tier == "quick" else 300
    progs = []
    for i in range(nprog):
        if i % 3 == 2:
            progs.append(cgen.program_for_analysis(seed + 15, i))
        else:
            progs.append(sysa.gen_program(seed + 15, i))
    for name in ESC_TESTDATA:
        d = os.path.join(REPO, "analysis/escape/testdata", name)
        text = open(os.path.join(d, "main.go")).read()
        progs.append({"kind": "src", "name": "escape-testdata-" + name, "text": text, "config": ""})
    # indirect calls mixing local closures and non-local function values (appended last: the draws of the programs
    # above do not move)
    import tgen
    from common import Rng as _Rng
    for k in range(10 if tier == "quick" else 80):
        progs.append({"kind": "src", "name": "indirectfam-%d-%d" % (seed, k), "text": tgen.indirectfam(_Rng(seed * 59 + k)), "config": ""})
    return progs


def check_c15(tier, seed):
    t0 = time.time()
    rep = Report("C15")
    bdir = build()
    binary = os.path.join(bdir, "simharness-norace")
    st = Stats()
    rng = Rng(seed ^ 0xC15)
    norders = 6 if tier == "quick" else 24
    laws = 12 if tier == "quick" else 40
    progs = programs(tier, seed)
    jobs, meta = [], []
    for prog in progs:
        ri = len(jobs)
        jobs.append(esc_job(len(jobs), prog, escape_params(rng, calm=True), laws=laws, mono=True, lawseed=rng.below(1 << 30)))
        jobs[-1]["_ref"] = True
        meta.append(None)
        for k in range(norders):
            j = esc_job(len(jobs), prog, escape_params(rng), laws=laws if k % 3 == 0 else 0, mono=(k % 2 == 0),
                        lawseed=rng.below(1 << 30), keep_func_order=(k % 2 == 1))
            jobs.append(j)
            meta.append(ri)
    res = run_jobs(binary, jobs, timeout=600 if tier == "quick" else 1800, progress=1000)
    counts = collections.Counter()
    observations = collections.Counter()
    for j, r, ri in zip(jobs, res, meta):
        hard = sysa.classify_hard(r)
        if hard and not (r or {}).get("died"):
            st.hard[hard.split(":")[0]] += 1
            rep.inconclusive.append("run %d (%s): %s" % (j["id"], j["_prog"], hard))
            continue
        st.add(j, r)
        e = (r or {}).get("escape") or {}
        for k, v in (e.get("counts") or {}).items():
            counts[k] += v
        counts["contexts_walked"] += e.get("contexts", 0)
        if any(m.startswith("self-check:") for m in e.get("monotonicity") or []):
            observations["runs in which the repository's own monotonicity self-check logged a violation (node-identity based; not a verdict)"] += 1
        counts["instructions_classified"] += len(e.get("locality") or {})
        ref = res[ri] if ri is not None else None
        if ref is not None and (sysa.classify_hard(ref) or ref.get("died") or ref.get("panic")):
            observations["reference run without verdict: " + sysa.short_panic(ref.get("panic") or ref.get("stderr") or "")[:100]] += 1
            continue
        if ri is None and (r.get("panic") or r.get("died")):
            observations["crash under the calm order (C07 matter): " + sysa.short_panic(r.get("panic") or r.get("stderr") or "")[:100]] += 1
            continue
        if ref is not None:
            counts["order_comparisons"] += 1
        for sig in esc_signatures(r, ref, j):
            def pred(rr, cand=None, s=sig, jj=j):
                cj = cand or {k: v for k, v in jj.items() if not k.startswith("_")}
                if rr is None or sysa.classify_hard(rr):
                    return False
                if s.startswith("fixpoint depends") or s.startswith("escape analysis crashed"):
                    rj = checks_a.ref_job_of(cj)
                    rj["mono_check"], rj["laws"] = False, 0
                    r0 = run_one(binary, rj, timeout=900)
                    if r0 is None or sysa.classify_hard(r0) or r0.get("panic") or r0.get("died"):
                        return False
                    return s in esc_signatures(rr, r0, cj)
                return s in esc_signatures(rr, None, cj)
            report_violation(rep, binary, "C15", j, sig, pred, "run-%d" % j["id"])
    cov = st.coverage(RULE_E, {"programs": len(progs), "orders_per_program": norders, "oracle_counts": dict(counts),
                               "observations": dict(observations),
                               "runs_per_hour": int(st.runs / max(1e-9, time.time() - t0) * 3600), "seeds": [seed]})
    write_evidence("C15", tier, seed, cov, time.time() - t0, len(rep.violations),
                   ["summaries are compared across orders by a renumbering-invariant colour-refinement hash (kind, label, status, edge flags); it can miss a difference, it cannot invent one",
                    "lattice laws and monotonicity are evaluated on graphs the runs produce and on seeded weakenings of them (property-based checks riding on the simulation, not schedule search)",
                    "hooks in /repo (build tag verif): work-queue pick, monotonicity self-check collector, graph access"])
    return rep.finish()


TABLE = {"C15": check_c15}
