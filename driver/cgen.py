"""cgen: seeded generator of import-free concurrent Go programs (system B).

Every program is emitted twice, line for line: the clean text is what the analyser sees; the executed text has the
same statements on the same lines, with scheduler calls (simrt.Yield/Go/Send/Recv), value-level taint sentinels
(simb.Src/Sink), access logging (simb.Acc) and fault points (simb.Fault) added on those lines.

Run-time safety (the programs are executed): every *S has non-nil n, m and l (len >= 2); channels are buffered and
never closed; no unbounded loops; the only panics are the injected ones.
"""
from common import Rng

CONFIG = '''taint-tracking-problems:
  - sources:
      - package: "(main)|(command-line-arguments)"
        method: "^source[0-9]*$"
    sinks:
      - package: "(main)|(command-line-arguments)"
        method: "^sink[0-9]*$"
'''

GO_FORMS = ["named", "lit_cap", "lit_nocap", "method_ptr", "method_val", "method_value", "method_expr",
            "funcvar", "funcfield", "funcparam", "iface", "generic"]
DEFER_FORMS = ["none", "none", "rec_lit", "rec_named", "norec", "rec_nested"]
PARAMS = "a *S, b *S, c chan string, cs chan *S, done chan bool"
ARGN = 5


class Worker:
    def __init__(self, k, form, dform):
        self.k, self.form, self.dform = k, form, dform
        self.go_line = 0
        self.entry = ""      # name of the entry function as the may-panic report prints it (RelString(nil))
        self.recovers = dform in ("rec_lit", "rec_named")
        self.fault_lines = []
        self.first_line = self.last_line = 0


class Gen:
    def __init__(self, rng, nworkers=None, forms=None, dforms=None, stmts=None, faults=True):
        self.rng = rng
        self.lines = []
        self.nworkers = nworkers or (2 + rng.below(3))
        self.stmts = stmts or (3 + rng.below(6))
        self.faults = faults
        self.workers = []
        for k in range(self.nworkers):
            form = rng.pick(forms or GO_FORMS)
            self.workers.append(Worker(k, form, rng.pick(dforms or DEFER_FORMS)))
        self.sends = {"c1": 0, "c2": 0, "cs1": 0}   # planned sends per main-level channel
        self.recvs = {"c1": 0, "c2": 0, "cs1": 0}
        self.source_lines, self.sink_lines = [], []
        self.features = set()
        self.indent = 0
        self.nvar = 0

    # ------------------------------------------------------------ emission
    def L(self):
        return len(self.lines) + 1

    def emit(self, clean, execd=None):
        pad = "\t" * self.indent
        self.lines.append((pad + clean, pad + (clean if execd is None else execd)))

    def stmt(self, clean, execd=None, accs=()):
        """A statement of a body: the executed variant yields first and logs its accesses."""
        ln = self.L()
        pre = "simrt.Yield(%d); " % ln
        for expr, w in accs:
            pre += "simb.Acc(%d, %s, %d); " % (ln, expr, w)
        self.emit(clean, pre + (clean if execd is None else execd))
        return ln

    def fresh(self, p):
        self.nvar += 1
        return "%s%d" % (p, self.nvar)

    # ------------------------------------------------------------ bodies
    def body(self, env, n, depth=0):
        for _ in range(n):
            self.one(env, depth)

    def chan_of(self, env, name):
        return env["chanmap"].get(name, name)

    def one(self, env, depth):
        r = self.rng
        strs, objs = env["strs"], env["objs"]
        kinds = ["src", "src", "concat", "fset", "fset", "fget", "fget", "link", "follow", "deep", "mset", "mget",
                 "lset", "lget", "gset", "gget", "gsobj", "ggobj", "gsfield", "sink", "sink", "sinkobj", "helper",
                 "closure", "iface", "new", "new", "send", "recv", "sendobj", "recvobj", "append"]
        if depth < 2:
            kinds += ["if", "for"]
        k = r.pick(kinds)
        a = r.pick(objs)
        x = r.pick(strs) if strs else None
        if k == "src" or x is None:
            v = self.fresh("x")
            ln = self.L()
            self.stmt("%s := source1()" % v, "%s := simb.Src(%d)" % (v, ln))
            self.stmt("_ = %s" % v)
            self.source_lines.append(ln)
            strs.append(v)
        elif k == "concat":
            v = self.fresh("x")
            self.stmt('%s := %s + "c" + %s' % (v, x, r.pick(strs)))
            self.stmt("_ = %s" % v)
            strs.append(v)
        elif k == "fset":
            self.stmt("%s.%s = %s" % (a, r.pick(["f", "g"]), x), accs=[(a, 1)])
            self.features.add("field-store")
        elif k == "fget":
            v = self.fresh("x")
            self.stmt("%s := %s.%s" % (v, a, r.pick(["f", "g"])), accs=[(a, 0)])
            self.stmt("_ = %s" % v)
            strs.append(v)
        elif k == "link":
            b = r.pick(objs)
            self.stmt("%s.n = %s" % (a, b), accs=[(a, 1)])
            self.features.add("link")
        elif k == "follow":
            v = self.fresh("o")
            self.stmt("%s := %s.n" % (v, a), accs=[(a, 0)])
            self.stmt("_ = %s" % v)
            objs.append(v)
        elif k == "deep":
            v = self.fresh("x")
            self.stmt("%s := %s.n.f" % (v, a), accs=[(a, 0), (a + ".n", 0)])
            self.stmt("_ = %s" % v)
            strs.append(v)
        elif k == "mset":
            self.stmt('%s.m["k"] = %s' % (a, x), accs=[(a, 0), (a + ".m", 1)])
            self.features.add("map")
        elif k == "mget":
            v = self.fresh("x")
            self.stmt('%s := %s.m["k"]' % (v, a), accs=[(a, 0), (a + ".m", 0)])
            self.stmt("_ = %s" % v)
            strs.append(v)
        elif k == "lset":
            self.stmt("%s.l[%d] = %s" % (a, r.below(2), x), accs=[(a, 0), ("&%s.l[0]" % a, 1)])
            self.features.add("slice")
        elif k == "lget":
            v = self.fresh("x")
            self.stmt("%s := %s.l[%d]" % (v, a, r.below(2)), accs=[(a, 0), ("&%s.l[0]" % a, 0)])
            self.stmt("_ = %s" % v)
            strs.append(v)
        elif k == "append":
            self.stmt("%s.l = append(%s.l, %s)" % (a, a, x), accs=[(a, 1)])
        elif k == "gset":
            g = r.pick(["G0", "G1"])
            self.stmt("%s = %s" % (g, x), accs=[("&" + g, 1)])
            self.features.add("global-string")
        elif k == "gget":
            v = self.fresh("x")
            g = r.pick(["G0", "G1"])
            self.stmt("%s := %s" % (v, g), accs=[("&" + g, 0)])
            self.stmt("_ = %s" % v)
            strs.append(v)
        elif k == "gsobj":
            self.stmt("GS = %s" % a, accs=[("&GS", 1)])
            self.features.add("global-object")
        elif k == "ggobj":
            v = self.fresh("o")
            self.stmt("%s := GS" % v, accs=[("&GS", 0)])
            self.stmt("_ = %s" % v)
            objs.append(v)
        elif k == "gsfield":
            self.stmt("GS.f = %s" % x, accs=[("&GS", 0), ("GS", 1)])
            self.features.add("global-object")
        elif k == "sink":
            ln = self.L()
            self.stmt("sink1(%s)" % x, "simb.Sink(%d, %s)" % (ln, x))
            self.sink_lines.append(ln)
        elif k == "sinkobj":
            ln = self.L()
            what = r.pick([a, a + ".n", a + ".m", a + ".l"])
            self.stmt("sink1(%s)" % what, "simb.Sink(%d, %s)" % (ln, what))
            self.sink_lines.append(ln)
        elif k == "helper":
            h = r.pick(["hset", "hget", "hlink", "hnext", "hpub", "hswap"])
            if h == "hset":
                self.stmt("hset(%s, %s)" % (a, x))
            elif h == "hget":
                v = self.fresh("x")
                self.stmt("%s := hget(%s)" % (v, a))
                self.stmt("_ = %s" % v)
                strs.append(v)
            elif h == "hlink":
                self.stmt("hlink(%s, %s)" % (a, r.pick(objs)))
            elif h == "hnext":
                v = self.fresh("o")
                self.stmt("%s := hnext(%s)" % (v, a))
                self.stmt("_ = %s" % v)
                objs.append(v)
            elif h == "hpub":
                self.stmt("hpub(%s)" % a)
                self.features.add("global-object")
            else:
                self.stmt("hswap(%s, %s)" % (a, r.pick(objs)))
            self.features.add("helper-call")
        elif k == "closure":
            f = self.fresh("fn")
            body = r.pick(["%s.f = %s" % (a, x), "G1 = %s" % x, "%s.n = %s" % (a, r.pick(objs))])
            ln = self.L()
            acc = "simb.Acc(%d, %s, 1); " % (ln, a) if body.startswith(a + ".") else "simb.Acc(%d, &G1, 1); " % ln
            self.stmt("%s := func() { %s }" % (f, body), "%s := func() { %s%s }" % (f, acc, body))
            self.stmt("%s()" % f)
            self.features.add("closure")
        elif k == "iface":
            i = self.fresh("i")
            self.stmt("var %s I = %s" % (i, a))
            if r.chance(50):
                self.stmt("%s.Set(%s)" % (i, x))
            else:
                v = self.fresh("x")
                self.stmt("%s := %s.Get()" % (v, i))
                self.stmt("_ = %s" % v)
                strs.append(v)
            self.features.add("interface")
        elif k == "new":
            v = self.fresh("o")
            self.stmt("%s := newS()" % v)
            self.stmt("_ = %s" % v)
            objs.append(v)
            self.features.add("fresh-object")
        elif k == "send":
            c = r.pick(env["schans"])
            ln = self.L()
            self.stmt("%s <- %s" % (c, x), "simrt.Send(%d, %s, %s)" % (ln, c, x))
            if depth == 0:
                self.sends[self.chan_of(env, c)] += 1
            self.features.add("chan-string")
        elif k == "recv":
            c = r.pick(env["schans"])
            cn = self.chan_of(env, c)
            if self.sends[cn] > self.recvs[cn]:
                v = self.fresh("x")
                ln = self.L()
                self.stmt("%s := <-%s" % (v, c), "%s := simrt.Recv(%d, %s)" % (v, ln, c))
                self.stmt("_ = %s" % v)
                strs.append(v)
                self.recvs[cn] += 1
        elif k == "sendobj":
            c = r.pick(env["ochans"])
            ln = self.L()
            self.stmt("%s <- %s" % (c, a), "simrt.Send(%d, %s, %s)" % (ln, c, a))
            if depth == 0:
                self.sends[self.chan_of(env, c)] += 1
            self.features.add("chan-of-ptr")
        elif k == "recvobj":
            c = r.pick(env["ochans"])
            cn = self.chan_of(env, c)
            if self.sends[cn] > self.recvs[cn]:
                v = self.fresh("o")
                ln = self.L()
                self.stmt("%s := <-%s" % (v, c), "%s := simrt.Recv(%d, %s)" % (v, ln, c))
                self.stmt("_ = %s" % v)
                objs.append(v)
                self.recvs[cn] += 1
        elif k in ("if", "for"):
            saved = (len(strs), len(objs))
            if k == "if":
                self.stmt("if cond(%d) {" % r.below(4))
            else:
                it = self.fresh("k")
                self.stmt("for %s := 0; %s < 2; %s++ {" % (it, it, it))
            self.indent += 1
            self.body(env, 1 + r.below(3), depth + 1)
            self.indent -= 1
            del strs[saved[0]:], objs[saved[1]:]
            if k == "if" and r.chance(40):
                self.emit("} else {")
                self.indent += 1
                self.body(env, 1 + r.below(2), depth + 1)
                self.indent -= 1
                del strs[saved[0]:], objs[saved[1]:]
            self.emit("}")

    def fault_point(self, w):
        if not self.faults:
            return
        ln = self.L()
        self.emit('if fault(%d) { panic("boom") }' % ln, 'if simb.Fault(%d) { panic("boom") }' % ln)
        w.fault_lines.append(ln)

    def worker_body(self, w, env):
        """Body of a goroutine entry function: completion signal, defer form, statements, fault points."""
        w.first_line = self.L()
        ln = self.L()
        self.emit("defer func() { done <- true }()", "defer func() { simrt.Send(%d, done, true) }()" % ln)
        d = w.dform
        if d == "rec_lit":
            self.emit("defer func() { recover() }()")
        elif d == "rec_named":
            self.emit("defer rec()")
        elif d == "norec":
            self.emit('defer func() { G1 = "d" }()', 'defer func() { simb.Acc(%d, &G1, 1); G1 = "d" }()' % self.L())
        elif d == "rec_nested":
            self.emit("defer func() { func() { recover() }() }()")
        n = self.stmts
        cut = self.rng.below(n + 1)
        self.body(env, cut)
        self.fault_point(w)
        self.body(env, n - cut)
        if self.rng.chance(50):
            self.fault_point(w)
        w.last_line = self.L()

    def env(self, objs, schans, ochans, chanmap, strs=None):
        return {"strs": list(strs or []), "objs": list(objs), "schans": list(schans), "ochans": list(ochans),
                "chanmap": dict(chanmap)}

    # ------------------------------------------------------------ whole program
    def generate(self):
        r = self.rng
        e = self.emit
        e("package main", 'package main; import ("simrt"; "simrt/simb")')
        e("")
        e("type S struct {")
        e("\tf string")
        e("\tg string")
        e("\tn *S")
        e("\tm map[string]string")
        e("\tl []string")
        e("}")
        e("")
        e("type I interface {")
        e("\tSet(x string)")
        e("\tGet() string")
        e("}")
        e("")
        e("type V struct{ p *S }")
        e("type H struct{ fn func(%s) }" % PARAMS)
        e("")
        ln = self.L()
        e("func (s *S) Set(x string) { s.f = x }", "func (s *S) Set(x string) { simb.Acc(%d, s, 1); s.f = x }" % ln)
        ln = self.L()
        e("func (s *S) Get() string  { return s.g }", "func (s *S) Get() string  { simb.Acc(%d, s, 0); return s.g }" % ln)
        e('func newS() *S { s := &S{m: map[string]string{}, l: []string{"", ""}}; s.n = s; return s }')
        e('func source1() string { return "src" }')
        e("func sink1(x any)      {}")
        e("func fault(n int) bool { return false }")
        e("func cond(i int) bool  { return i%2 == 0 }")
        e("func rec()             { recover() }")
        ln = self.L()
        e("func hset(a *S, x string) { a.g = x }", "func hset(a *S, x string) { simb.Acc(%d, a, 1); a.g = x }" % ln)
        ln = self.L()
        e("func hget(a *S) string    { return a.f }", "func hget(a *S) string    { simb.Acc(%d, a, 0); return a.f }" % ln)
        ln = self.L()
        e("func hlink(a *S, b *S)    { a.n = b }", "func hlink(a *S, b *S)    { simb.Acc(%d, a, 1); a.n = b }" % ln)
        ln = self.L()
        e("func hnext(a *S) *S       { return a.n }", "func hnext(a *S) *S       { simb.Acc(%d, a, 0); return a.n }" % ln)
        ln = self.L()
        e("func hpub(a *S)           { GS = a }", "func hpub(a *S)           { simb.Acc(%d, &GS, 1); GS = a }" % ln)
        ln = self.L()
        e("func hswap(a *S, b *S)    { a.f, b.f = b.f, a.f }",
          "func hswap(a *S, b *S)    { simb.Acc(%d, a, 1); simb.Acc(%d, b, 1); a.f, b.f = b.f, a.f }" % (ln, ln))
        e("")
        e("var G0 string")
        e("var G1 string")
        e("var GS *S = newS()")
        e("var GFn func(%s)" % PARAMS)
        e("")
        # interfaces for interface launches
        for w in self.workers:
            if w.form == "iface":
                e("type R%d interface{ m%d(b *S, c chan string, cs chan *S, done chan bool) }" % (w.k, w.k))
        e("")
        # ---- main
        e("func main() {", "func pmain() {")
        self.indent = 1
        nw = self.nworkers
        e("done := make(chan bool, %d)" % (nw + 2))
        e("a1 := newS()")
        e("a2 := newS()")
        e("a3 := newS()")
        e("c1 := make(chan string, 8)")
        e("c2 := make(chan string, 8)")
        e("cs1 := make(chan *S, 8)")
        e("_, _, _, _, _, _ = a1, a2, a3, c1, c2, cs1")
        menv = self.env(["a1", "a2", "a3"], ["c1", "c2"], ["cs1"], {})
        self.body(menv, 1 + r.below(self.stmts))
        for w in self.workers:
            args_a, args_b = r.pick(["a1", "a2", "a3"]), r.pick(["a1", "a2", "a3"])
            ch = r.pick(["c1", "c2"])
            args = "%s, %s, %s, cs1, done" % (args_a, args_b, ch)
            w.chanmap = {"c": ch, "cs": "cs1"}
            w.args = (args_a, args_b, ch)
            f = w.form
            k = w.k
            if f == "named":
                w.go_line = self.L()
                e("go w%d(%s)" % (k, args), "simrt.Go5(%d, w%d, %s)" % (w.go_line, k, args))
                w.entry = "w%d" % k
            elif f == "generic":
                w.go_line = self.L()
                e("go g%d[string](%s)" % (k, args), "simrt.Go5(%d, g%d[string], %s)" % (w.go_line, k, args))
                w.entry = "g%d[string]" % k
            elif f == "lit_nocap":
                w.go_line = self.L()
                e("go func(%s) {" % PARAMS, "simrt.Go5(%d, func(%s) {" % (w.go_line, PARAMS))
                self.indent += 1
                self.worker_body(w, self.env(["a", "b"], ["c"], ["cs"], w.chanmap))
                self.indent -= 1
                e("}(%s)" % args, "}, %s)" % args)
                w.entry = "main$%d"  # filled below (anonymous functions are numbered in source order)
            elif f == "lit_cap":
                w.go_line = self.L()
                e("go func() {", "simrt.Go0(%d, func() {" % w.go_line)
                self.indent += 1
                self.worker_body(w, self.env([args_a, args_b], [ch], ["cs1"], {}))
                self.indent -= 1
                e("}()", "})")
                w.entry = "main$%d"
            elif f == "method_ptr":
                w.go_line = self.L()
                e("go %s.m%d(%s, %s, cs1, done)" % (args_a, k, args_b, ch),
                  "simrt.Go4(%d, %s.m%d, %s, %s, cs1, done)" % (w.go_line, args_a, k, args_b, ch))
                w.entry = "(*S).m%d" % k
            elif f == "method_val":
                w.go_line = self.L()
                e("go V{%s}.m%d(%s, %s, cs1, done)" % (args_a, k, args_b, ch),
                  "simrt.Go4(%d, V{%s}.m%d, %s, %s, cs1, done)" % (w.go_line, args_a, k, args_b, ch))
                w.entry = "(V).m%d" % k
            elif f == "method_value":
                e("mv%d := %s.m%d" % (k, args_a, k))
                w.go_line = self.L()
                e("go mv%d(%s, %s, cs1, done)" % (k, args_b, ch),
                  "simrt.Go4(%d, mv%d, %s, %s, cs1, done)" % (w.go_line, k, args_b, ch))
                w.entry = "(*S).m%d" % k
            elif f == "method_expr":
                w.go_line = self.L()
                e("go (*S).m%d(%s)" % (k, args), "simrt.Go5(%d, (*S).m%d, %s)" % (w.go_line, k, args))
                w.entry = "(*S).m%d" % k
            elif f == "funcvar":
                e("GFn = w%d" % k)
                w.go_line = self.L()
                e("go GFn(%s)" % args, "simrt.Go5(%d, GFn, %s)" % (w.go_line, args))
                w.entry = "w%d" % k
            elif f == "funcfield":
                e("h%d := &H{fn: w%d}" % (k, k))
                w.go_line = self.L()
                e("go h%d.fn(%s)" % (k, args), "simrt.Go5(%d, h%d.fn, %s)" % (w.go_line, k, args))
                w.entry = "w%d" % k
            elif f == "funcparam":
                e("launch%d(w%d, %s)" % (k, k, args))
                w.entry = "w%d" % k
            elif f == "iface":
                e("var r%d R%d = %s" % (k, k, args_a))
                w.go_line = self.L()
                e("go r%d.m%d(%s, %s, cs1, done)" % (k, k, args_b, ch),
                  "simrt.Go4(%d, r%d.m%d, %s, %s, cs1, done)" % (w.go_line, k, k, args_b, ch))
                w.entry = "(*S).m%d" % k
            self.body(menv, r.below(3))
        for _ in range(nw):
            ln = self.L()
            self.emit("<-done", "simrt.Recv(%d, done)" % ln)
        self.body(menv, 1 + r.below(4))
        # a final sink of everything main can reach
        for what in ("a1", "a2", "a3", "GS", "G0", "G1"):
            ln = self.L()
            self.stmt("sink1(%s)" % what, "simb.Sink(%d, %s)" % (ln, what))
            self.sink_lines.append(ln)
        self.indent = 0
        e("}")
        e("")
        # anonymous functions of main are numbered main$1, main$2, ... in source order; closures in bodies count too.
        # The entry names of literal workers are therefore resolved by the static side by go line, not by name.
        # ---- launch helpers and out-of-line workers
        for w in self.workers:
            k = w.k
            if w.form == "funcparam":
                e("func launch%d(fn func(%s), %s) {" % (k, PARAMS, PARAMS))
                w.go_line = self.L()
                e("\tgo fn(a, b, c, cs, done)", "\tsimrt.Go5(%d, fn, a, b, c, cs, done)" % w.go_line)
                e("}")
                e("")
            if w.form in ("named", "funcvar", "funcfield", "funcparam"):
                e("func w%d(%s) {" % (k, PARAMS))
                objs = ["a", "b"]
            elif w.form == "generic":
                e("func g%d[T any](%s) {" % (k, PARAMS))
                objs = ["a", "b"]
            elif w.form in ("method_ptr", "method_value", "method_expr", "iface"):
                e("func (a *S) m%d(b *S, c chan string, cs chan *S, done chan bool) {" % k)
                objs = ["a", "b"]
            elif w.form == "method_val":
                e("func (v V) m%d(b *S, c chan string, cs chan *S, done chan bool) {" % k)
                e("\ta := v.p")
                e("\t_ = a")
                objs = ["a", "b"]
            else:
                continue
            self.indent = 1
            self.worker_body(w, self.env(objs, ["c"], ["cs"], w.chanmap))
            self.indent = 0
            e("}")
            e("")
        # trailing lines that exist only in the executed variant
        self.extra = ["", "func main() { simb.Main(pmain) }", "var _ = simrt.Yield", "var _ = simb.Acc", ""]
        return self

    def clean(self):
        return "\n".join(c for c, _ in self.lines) + "\n"

    def executed(self):
        return "\n".join(x for _, x in self.lines) + "\n" + "\n".join(self.extra)

    def meta(self):
        return {"workers": [{"k": w.k, "form": w.form, "defer": w.dform, "go_line": w.go_line, "entry": w.entry,
                             "recovers": w.recovers, "fault_lines": w.fault_lines, "first_line": w.first_line,
                             "last_line": w.last_line} for w in self.workers],
                "source_lines": self.source_lines, "sink_lines": self.sink_lines, "features": sorted(self.features),
                "nlines": len(self.lines)}


def generate(seed, idx, **kw):
    rng = Rng(seed * 7919 + idx * 104729 + 13)
    g = Gen(rng, **kw).generate()
    return {"name": "cgen-%d-%d" % (seed, idx), "clean": g.clean(), "exec": g.executed(), "meta": g.meta()}


def program_for_analysis(seed, idx, **kw):
    p = generate(seed, idx, **kw)
    return {"kind": "src", "name": p["name"], "text": p["clean"], "config": CONFIG}
