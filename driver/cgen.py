"""cgen: seeded generator of import-free concurrent Go programs (system B).

Every program is emitted twice, line for line: the clean text is what the analyser sees; the executed text has the
same statements on the same lines, with scheduler calls (simrt.Yield/Go/Send/Recv), value-level taint sentinels
(simb.Src/Sink), access logging (simb.Acc) and fault points (simb.Fault) added on those lines.

Run-time safety (the programs are executed): every *S has non-nil n, m and l (len >= 2); channels are buffered and
never closed; no unbounded loops; the only panics are the injected ones.
"""
from common import Rng

CONFIG = '''taint-tracking-problems:
  - sources:
      - package: "(main)|(command-line-arguments)"
        method: "^source[0-9]*$"
    sinks:
      - package: "(main)|(command-line-arguments)"
        method: "^sink[0-9]*$"
'''

GO_FORMS = ["named", "lit_cap", "lit_nocap", "method_ptr", "method_val", "method_value", "method_expr",
            "funcvar", "funcfield", "funcparam", "iface", "generic", "generic_launch", "generic_launch"]
DEFER_FORMS = ["none", "none", "rec_lit", "rec_named", "norec", "rec_nested", "rec_helper", "rec_method"]
# forms that only matter to C19 (programs generated with fault points); kept out of the C13/C14 program stream
DEFER_FORMS_FAULTS = DEFER_FORMS + ["var_phi_norec", "var_phi_rec", "var_rec"]
PARAMS = "a *S, b *S, c chan string, cs chan *S, done chan bool"
ARGN = 5


class Worker:
    def __init__(self, k, form, dform):
        self.k, self.form, self.dform = k, form, dform
        self.go_line = 0
        self.entry = ""      # name of the entry function as the may-panic report prints it (RelString(nil))
        self.recovers = dform in ("rec_lit", "rec_named", "rec_method", "var_phi_rec", "var_rec")
        self.fault_lines = []
        self.first_line = self.last_line = 0
        self.twin_entry = ""
        self.twin_fault_lines = []


class Gen:
    def __init__(self, rng, nworkers=None, forms=None, dforms=None, stmts=None, faults=True, use_globals=None):
        self.rng = rng
        # swarm: a third of the programs share nothing through package-level variables (the analyser's escape
        # bookkeeping reports an error for most global jumps, which would leave the silent case under-tested)
        self.use_globals = rng.chance(67) if use_globals is None else use_globals
        self.lines = []
        self.nworkers = nworkers or (2 + rng.below(3))
        self.stmts = stmts or (3 + rng.below(6))
        self.faults = faults
        self.workers = []
        for k in range(self.nworkers):
            form = rng.pick(forms or GO_FORMS)
            self.workers.append(Worker(k, form, rng.pick(dforms or (DEFER_FORMS_FAULTS if faults else DEFER_FORMS))))
        self.sends = {"c1": 0, "c2": 0, "cs1": 0}   # planned sends per main-level channel
        self.recvs = {"c1": 0, "c2": 0, "cs1": 0}
        self.source_lines, self.sink_lines = [], []
        self.spawned = 0
        self.features = set()
        self.indent = 0
        self.nvar = 0

    # ------------------------------------------------------------ emission
    def L(self):
        return len(self.lines) + 1

    def emit(self, clean, execd=None):
        pad = "\t" * self.indent
        self.lines.append((pad + clean, pad + (clean if execd is None else execd)))

    def stmt(self, clean, execd=None, accs=()):
        """A statement of a body: the executed variant yields first and logs its accesses."""
        ln = self.L()
        pre = "simrt.Yield(%d); " % ln
        for expr, w in accs:
            pre += "simb.Acc(%d, %s, %d); " % (ln, expr, w)
        self.emit(clean, pre + (clean if execd is None else execd))
        return ln

    def fresh(self, p):
        self.nvar += 1
        return "%s%d" % (p, self.nvar)

    # ------------------------------------------------------------ bodies
    def body(self, env, n, depth=0):
        for _ in range(n):
            self.one(env, depth)

    def chan_of(self, env, name):
        return env["chanmap"].get(name, name)

    def one(self, env, depth):
        r = self.rng
        strs, objs = env["strs"], env["objs"]
        kinds = ["src", "src", "concat", "fset", "fset", "fget", "fget", "link", "follow", "deep", "mset", "mget",
                 "lset", "lget", "gset", "gget", "gsobj", "ggobj", "gsfield", "sink", "sink", "sinkobj", "helper",
                 "closure", "iface", "iface", "new", "new", "send", "recv", "sendobj", "recvobj", "append", "deepset",
                 "addr", "pset", "pget", "mcall"]
        if env.get("is_main") and depth == 0:
            kinds += ["spawn", "spawn"]
        if depth < 2:
            kinds += ["if", "for"]
        if not self.use_globals:
            kinds = [x for x in kinds if x not in ("gset", "gget", "gsobj", "ggobj", "gsfield")]
        k = r.pick(kinds)
        a = r.pick(objs)
        x = r.pick(strs) if strs else None
        if k == "src" or x is None:
            v = self.fresh("x")
            ln = self.L()
            self.stmt("%s := source1()" % v, "%s := simb.Src(%d)" % (v, ln))
            self.stmt("_ = %s" % v)
            self.source_lines.append(ln)
            strs.append(v)
        elif k == "concat":
            v = self.fresh("x")
            self.stmt('%s := %s + "c" + %s' % (v, x, r.pick(strs)))
            self.stmt("_ = %s" % v)
            strs.append(v)
        elif k == "fset":
            fld = r.pick(["f", "g"])
            self.stmt("%s.%s = %s" % (a, fld, x), accs=[("&%s.%s" % (a, fld), 1)])
            self.features.add("field-store")
        elif k == "fget":
            v = self.fresh("x")
            fld = r.pick(["f", "g"])
            self.stmt("%s := %s.%s" % (v, a, fld), accs=[("&%s.%s" % (a, fld), 0)])
            self.stmt("_ = %s" % v)
            strs.append(v)
        elif k == "link":
            b = r.pick(objs)
            self.stmt("%s.n = %s" % (a, b), accs=[("&%s.n" % a, 1)])
            self.features.add("link")
        elif k == "follow":
            v = self.fresh("o")
            self.stmt("%s := %s.n" % (v, a), accs=[("&%s.n" % a, 0)])
            self.stmt("_ = %s" % v)
            objs.append(v)
        elif k == "deep":
            v = self.fresh("x")
            self.stmt("%s := %s.n.f" % (v, a), accs=[("&%s.n" % a, 0), ("&%s.n.f" % a, 0)])
            self.stmt("_ = %s" % v)
            strs.append(v)
        elif k == "deepset":
            self.stmt("%s.n.f = %s" % (a, x), accs=[("&%s.n" % a, 0), ("&%s.n.f" % a, 1)])
            self.features.add("field-store")
        elif k == "addr":
            v = self.fresh("p")
            what = r.pick(["%s.f" % a, "%s.g" % a, "%s.n.f" % a])
            # &a.f computes an address without touching *a; &a.n.f loads a.n first
            self.stmt("%s := &%s" % (v, what), accs=[("&%s.n" % a, 0)] if ".n." in what else ())
            self.stmt("_ = %s" % v)
            env["ptrs"].append(v)
            self.features.add("interior-pointer")
        elif k == "pset" and env["ptrs"]:
            p = r.pick(env["ptrs"])
            self.stmt("*%s = %s" % (p, x), accs=[(p, 1)])
        elif k == "pget" and env["ptrs"]:
            p = r.pick(env["ptrs"])
            v = self.fresh("x")
            self.stmt("%s := *%s" % (v, p), accs=[(p, 0)])
            self.stmt("_ = %s" % v)
            strs.append(v)
        elif k == "mcall":
            self.stmt("%s.Put(%s, %s)" % (a, r.pick(objs), x))
            self.features.add("method-ptr-arg")
        elif k == "spawn":
            h = r.pick(["hspawnf", "hspawnn", "hspawno"])
            ln = self.L()
            self.stmt("%s(%s, done)" % (h, a))
            self.spawned += 1
            self.features.add("go-inside-callee")
        elif k == "mset":
            self.stmt('%s.m["k"] = %s' % (a, x), accs=[("&%s.m" % a, 0), (a + ".m", 1)])
            self.features.add("map")
        elif k == "mget":
            v = self.fresh("x")
            self.stmt('%s := %s.m["k"]' % (v, a), accs=[("&%s.m" % a, 0), (a + ".m", 0)])
            self.stmt("_ = %s" % v)
            strs.append(v)
        elif k == "lset":
            li = r.below(2)
            self.stmt("%s.l[%d] = %s" % (a, li, x), accs=[("&%s.l" % a, 0), ("&%s.l[%d]" % (a, li), 1)])
            self.features.add("slice")
        elif k == "lget":
            v = self.fresh("x")
            li = r.below(2)
            self.stmt("%s := %s.l[%d]" % (v, a, li), accs=[("&%s.l" % a, 0), ("&%s.l[%d]" % (a, li), 0)])
            self.stmt("_ = %s" % v)
            strs.append(v)
        elif k == "append":
            self.stmt("%s.l = append(%s.l, %s)" % (a, a, x), accs=[("&%s.l" % a, 1)])
        elif k == "gset":
            g = r.pick(["G0", "G1"])
            self.stmt("%s = %s" % (g, x), accs=[("&" + g, 1)])
            self.features.add("global-string")
        elif k == "gget":
            v = self.fresh("x")
            g = r.pick(["G0", "G1"])
            self.stmt("%s := %s" % (v, g), accs=[("&" + g, 0)])
            self.stmt("_ = %s" % v)
            strs.append(v)
        elif k == "gsobj":
            self.stmt("GS = %s" % a, accs=[("&GS", 1)])
            self.features.add("global-object")
        elif k == "ggobj":
            v = self.fresh("o")
            self.stmt("%s := GS" % v, accs=[("&GS", 0)])
            self.stmt("_ = %s" % v)
            objs.append(v)
        elif k == "gsfield":
            self.stmt("GS.f = %s" % x, accs=[("&GS", 0), ("&GS.f", 1)])
            self.features.add("global-object")
        elif k == "sink":
            ln = self.L()
            self.stmt("sink1(%s)" % x, "simb.Sink(%d, %s)" % (ln, x))
            self.sink_lines.append(ln)
        elif k == "sinkobj":
            ln = self.L()
            what = r.pick([a, a + ".n", a + ".m", a + ".l"])
            self.stmt("sink1(%s)" % what, "simb.Sink(%d, %s)" % (ln, what))
            self.sink_lines.append(ln)
        elif k == "helper":
            h = r.pick(["hset", "hget", "hlink", "hnext", "hpub", "hswap"] if self.use_globals else ["hset", "hget", "hlink", "hnext", "hswap"])
            if h == "hset":
                self.stmt("hset(%s, %s)" % (a, x))
            elif h == "hget":
                v = self.fresh("x")
                self.stmt("%s := hget(%s)" % (v, a))
                self.stmt("_ = %s" % v)
                strs.append(v)
            elif h == "hlink":
                self.stmt("hlink(%s, %s)" % (a, r.pick(objs)))
            elif h == "hnext":
                v = self.fresh("o")
                self.stmt("%s := hnext(%s)" % (v, a))
                self.stmt("_ = %s" % v)
                objs.append(v)
            elif h == "hpub":
                self.stmt("hpub(%s)" % a)
                self.features.add("global-object")
            else:
                self.stmt("hswap(%s, %s)" % (a, r.pick(objs)))
            self.features.add("helper-call")
        elif k == "closure":
            f = self.fresh("fn")
            body = r.pick(["%s.f = %s" % (a, x), "G1 = %s" % x, "%s.n = %s" % (a, r.pick(objs))] if self.use_globals
                          else ["%s.f = %s" % (a, x), "%s.g = %s" % (a, x), "%s.n = %s" % (a, r.pick(objs))])
            ln = self.L()
            acc = "simb.Acc(%d, &%s, 1); " % (ln, body.split(" = ")[0]) if body.startswith(a + ".") else "simb.Acc(%d, &G1, 1); " % ln
            self.stmt("%s := func() { %s }" % (f, body), "%s := func() { %s%s }" % (f, acc, body))
            self.stmt("%s()" % f)
            self.features.add("closure")
        elif k == "iface":
            i = self.fresh("i")
            self.stmt("var %s I = %s" % (i, a))
            c = r.below(4)
            if c == 0:
                self.stmt("%s.Set(%s)" % (i, x))
            elif c == 1:
                self.stmt("%s.Put(%s, %s)" % (i, r.pick(objs), x))
                self.features.add("iface-ptr-arg")
            elif c == 2:
                self.stmt("%s.Link(%s)" % (i, r.pick(objs)))
                self.features.add("iface-ptr-arg")
            else:
                v = self.fresh("x")
                self.stmt("%s := %s.Get()" % (v, i))
                self.stmt("_ = %s" % v)
                strs.append(v)
            self.features.add("interface")
        elif k == "new":
            v = self.fresh("o")
            self.stmt("%s := newS()" % v)
            self.stmt("_ = %s" % v)
            objs.append(v)
            self.features.add("fresh-object")
        elif k == "send":
            c = r.pick(env["schans"])
            ln = self.L()
            self.stmt("%s <- %s" % (c, x), "simrt.Send(%d, %s, %s)" % (ln, c, x))
            if depth == 0:
                self.sends[self.chan_of(env, c)] += 1
            self.features.add("chan-string")
        elif k == "recv":
            c = r.pick(env["schans"])
            cn = self.chan_of(env, c)
            if self.sends[cn] > self.recvs[cn]:
                v = self.fresh("x")
                ln = self.L()
                self.stmt("%s := <-%s" % (v, c), "%s := simrt.Recv(%d, %s)" % (v, ln, c))
                self.stmt("_ = %s" % v)
                strs.append(v)
                self.recvs[cn] += 1
        elif k == "sendobj":
            c = r.pick(env["ochans"])
            ln = self.L()
            self.stmt("%s <- %s" % (c, a), "simrt.Send(%d, %s, %s)" % (ln, c, a))
            if depth == 0:
                self.sends[self.chan_of(env, c)] += 1
            self.features.add("chan-of-ptr")
        elif k == "recvobj":
            c = r.pick(env["ochans"])
            cn = self.chan_of(env, c)
            if self.sends[cn] > self.recvs[cn]:
                v = self.fresh("o")
                ln = self.L()
                self.stmt("%s := <-%s" % (v, c), "%s := simrt.Recv(%d, %s)" % (v, ln, c))
                self.stmt("_ = %s" % v)
                objs.append(v)
                self.recvs[cn] += 1
        elif k in ("if", "for"):
            saved = (len(strs), len(objs), len(env["ptrs"]))
            if k == "if":
                self.stmt("if cond(%d) {" % r.below(4))
            else:
                it = self.fresh("k")
                self.stmt("for %s := 0; %s < 2; %s++ {" % (it, it, it))
            self.indent += 1
            self.body(env, 1 + r.below(3), depth + 1)
            self.indent -= 1
            del strs[saved[0]:], objs[saved[1]:], env["ptrs"][saved[2]:]
            if k == "if" and r.chance(40):
                self.emit("} else {")
                self.indent += 1
                self.body(env, 1 + r.below(2), depth + 1)
                self.indent -= 1
                del strs[saved[0]:], objs[saved[1]:], env["ptrs"][saved[2]:]
            self.emit("}")

    def fault_point(self, w):
        if not self.faults:
            return
        ln = self.L()
        self.emit('if fault(%d) { panic("boom") }' % ln, 'if simb.Fault(%d) { panic("boom") }' % ln)
        w.fault_lines.append(ln)

    def worker_body(self, w, env):
        """Body of a goroutine entry function: completion signal, defer form, statements, fault points."""
        w.first_line = self.L()
        ln = self.L()
        self.emit("defer func() { done <- true }()", "defer func() { simrt.Send(%d, done, true) }()" % ln)
        d = w.dform
        if d == "rec_lit":
            self.emit("defer func() { recover() }()")
        elif d == "rec_named":
            self.emit("defer rec()")
        elif d == "norec":
            self.emit('defer func() { G1 = "d" }()', 'defer func() { simb.Acc(%d, &G1, 1); G1 = "d" }()' % self.L())
        elif d == "rec_nested":
            self.emit("defer func() { func() { recover() }() }()")
        elif d == "rec_helper":
            # recover is called one call level below the deferred function: it does NOT stop the panic
            self.emit("defer func() { rec() }()")
        elif d == "rec_method":
            # the deferred function is a method that calls recover directly: it DOES stop the panic
            self.emit("defer GR.rec()")
        elif d == "var_phi_norec":
            # the deferred function value is chosen at run time; on the path taken it does not recover
            self.emit("h := noop; if GB { h = rec }; defer h()")
        elif d == "var_phi_rec":
            self.emit("h := noop; if !GB { h = rec }; defer h()")
        elif d == "var_rec":
            self.emit("h := GH; defer h()")
        n = self.stmts
        cut = self.rng.below(n + 1)
        self.body(env, cut)
        self.fault_point(w)
        self.body(env, n - cut)
        if self.rng.chance(50):
            self.fault_point(w)
        w.last_line = self.L()

    def env(self, objs, schans, ochans, chanmap, strs=None):
        return {"strs": list(strs or []), "objs": list(objs), "schans": list(schans), "ochans": list(ochans),
                "chanmap": dict(chanmap), "ptrs": []}

    # ------------------------------------------------------------ whole program
    def generate(self):
        r = self.rng
        e = self.emit
        e("package main", 'package main; import ("simrt"; "simrt/simb")')
        e("")
        e("type S struct {")
        e("\tf string")
        e("\tg string")
        e("\tn *S")
        e("\tm map[string]string")
        e("\tl []string")
        e("}")
        e("")
        e("type I interface {")
        e("\tSet(x string)")
        e("\tGet() string")
        e("\tPut(o *S, x string)")
        e("\tLink(o *S)")
        e("}")
        e("")
        e("type V struct{ p *S }")
        e("type H struct{ fn func(%s) }" % PARAMS)
        e("")
        ln = self.L()
        e("func (s *S) Set(x string) { s.f = x }", "func (s *S) Set(x string) { simb.Acc(%d, &s.f, 1); s.f = x }" % ln)
        ln = self.L()
        e("func (s *S) Get() string  { return s.g }", "func (s *S) Get() string  { simb.Acc(%d, &s.g, 0); return s.g }" % ln)
        ln = self.L()
        e("func (s *S) Put(o *S, x string) { o.f = x }", "func (s *S) Put(o *S, x string) { simb.Acc(%d, &o.f, 1); o.f = x }" % ln)
        ln = self.L()
        e("func (s *S) Link(o *S)          { s.n = o }", "func (s *S) Link(o *S)          { simb.Acc(%d, &s.n, 1); s.n = o }" % ln)
        e('func newS() *S { s := &S{m: map[string]string{}, l: []string{"", ""}}; s.n = s; return s }')
        e('func source1() string { return "src" }')
        e("func sink1(x any)      {}")
        e("func fault(n int) bool { return false }")
        e("func cond(i int) bool  { return i%2 == 0 }")
        e("func rec()             { recover() }")
        if self.faults:
            e("func noop()            {}")
            e("var GB bool")
            e("var GH = rec")
        e("type Rc struct{}")
        e("func (Rc) rec()        { recover() }")
        e("var GR Rc")
        ln = self.L()
        e("func hset(a *S, x string) { a.g = x }", "func hset(a *S, x string) { simb.Acc(%d, &a.g, 1); a.g = x }" % ln)
        ln = self.L()
        e("func hget(a *S) string    { return a.f }", "func hget(a *S) string    { simb.Acc(%d, &a.f, 0); return a.f }" % ln)
        ln = self.L()
        e("func hlink(a *S, b *S)    { a.n = b }", "func hlink(a *S, b *S)    { simb.Acc(%d, &a.n, 1); a.n = b }" % ln)
        ln = self.L()
        e("func hnext(a *S) *S       { return a.n }", "func hnext(a *S) *S       { simb.Acc(%d, &a.n, 0); return a.n }" % ln)
        ln = self.L()
        e("func hpub(a *S)           { GS = a }", "func hpub(a *S)           { simb.Acc(%d, &GS, 1); GS = a }" % ln)
        ln = self.L()
        e("func hswap(a *S, b *S)    { a.f, b.f = b.f, a.f }",
          "func hswap(a *S, b *S)    { simb.Acc(%d, &a.f, 1); simb.Acc(%d, &b.f, 1); a.f, b.f = b.f, a.f }" % (ln, ln))
        # helpers that start a goroutine inside a callee, handing it an interior pointer or an inner object
        ln = self.L()
        e("func hspawnf(a *S, done chan bool) { go wleakp(&a.f, done) }",
          "func hspawnf(a *S, done chan bool) { simrt.Go2(%d, wleakp, &a.f, done) }" % ln)
        ln = self.L()
        e("func hspawnn(a *S, done chan bool) { go wleakp(&a.n.f, done) }",
          "func hspawnn(a *S, done chan bool) { simb.Acc(%d, &a.n, 0); simrt.Go2(%d, wleakp, &a.n.f, done) }" % (ln, ln))
        ln = self.L()
        e("func hspawno(a *S, done chan bool) { go wleako(a.n, done) }",
          "func hspawno(a *S, done chan bool) { simb.Acc(%d, &a.n, 0); simrt.Go2(%d, wleako, a.n, done) }" % (ln, ln))
        e("func wleakp(p *string, done chan bool) {")
        ln = self.L()
        e("\tdefer func() { done <- true }()", "\tdefer func() { simrt.Send(%d, done, true) }()" % ln)
        ln = self.L()
        e("\tx := *p", "\tsimrt.Yield(%d); simb.Acc(%d, p, 0); x := *p" % (ln, ln))
        ln = self.L()
        e("\tsink1(x)", "\tsimrt.Yield(%d); simb.Sink(%d, x)" % (ln, ln))
        self.sink_lines.append(ln)
        ln = self.L()
        e("\t*p = source1()", "\tsimrt.Yield(%d); simb.Acc(%d, p, 1); *p = simb.Src(%d)" % (ln, ln, ln))
        self.source_lines.append(ln)
        e("}")
        e("func wleako(o *S, done chan bool) {")
        ln = self.L()
        e("\tdefer func() { done <- true }()", "\tdefer func() { simrt.Send(%d, done, true) }()" % ln)
        ln = self.L()
        e("\tsink1(o.f)", "\tsimrt.Yield(%d); simb.Acc(%d, &o.f, 0); simb.Sink(%d, o.f)" % (ln, ln, ln))
        self.sink_lines.append(ln)
        ln = self.L()
        e("\to.g = source1()", "\tsimrt.Yield(%d); simb.Acc(%d, &o.g, 1); o.g = simb.Src(%d)" % (ln, ln, ln))
        self.source_lines.append(ln)
        e("}")
        e("")
        e("var G0 string")
        e("var G1 string")
        e("var GS *S = newS()")
        e("var GFn func(%s)" % PARAMS)
        e("")
        # interfaces for interface launches
        for w in self.workers:
            if w.form in ("iface", "generic_launch"):
                e("type R%d interface{ m%d(b *S, c chan string, cs chan *S, done chan bool) }" % (w.k, w.k))
        e("")
        # ---- main
        e("func main() {", "func pmain() {")
        self.indent = 1
        nw = self.nworkers
        e("done := make(chan bool, %d)" % (nw + 16))
        e("a1 := newS()")
        e("a2 := newS()")
        e("a3 := newS()")
        e("c1 := make(chan string, 8)")
        e("c2 := make(chan string, 8)")
        e("cs1 := make(chan *S, 8)")
        e("_, _, _, _, _, _ = a1, a2, a3, c1, c2, cs1")
        menv = self.env(["a1", "a2", "a3"], ["c1", "c2"], ["cs1"], {})
        menv["is_main"] = True
        self.body(menv, 1 + r.below(self.stmts))
        for w in self.workers:
            args_a, args_b = r.pick(["a1", "a2", "a3"]), r.pick(["a1", "a2", "a3"])
            ch = r.pick(["c1", "c2"])
            args = "%s, %s, %s, cs1, done" % (args_a, args_b, ch)
            w.chanmap = {"c": ch, "cs": "cs1"}
            w.args = (args_a, args_b, ch)
            f = w.form
            k = w.k
            if f == "named":
                w.go_line = self.L()
                e("go w%d(%s)" % (k, args), "simrt.Go5(%d, w%d, %s)" % (w.go_line, k, args))
                w.entry = "w%d" % k
            elif f == "generic":
                w.go_line = self.L()
                e("go g%d[string](%s)" % (k, args), "simrt.Go5(%d, g%d[string], %s)" % (w.go_line, k, args))
                w.entry = "g%d[string]" % k
            elif f == "lit_nocap":
                w.go_line = self.L()
                e("go func(%s) {" % PARAMS, "simrt.Go5(%d, func(%s) {" % (w.go_line, PARAMS))
                self.indent += 1
                self.worker_body(w, self.env(["a", "b"], ["c"], ["cs"], w.chanmap))
                self.indent -= 1
                e("}(%s)" % args, "}, %s)" % args)
                w.entry = "main$%d"  # filled below (anonymous functions are numbered in source order)
            elif f == "lit_cap":
                w.go_line = self.L()
                e("go func() {", "simrt.Go0(%d, func() {" % w.go_line)
                self.indent += 1
                self.worker_body(w, self.env([args_a, args_b], [ch], ["cs1"], {}))
                self.indent -= 1
                e("}()", "})")
                w.entry = "main$%d"
            elif f == "method_ptr":
                w.go_line = self.L()
                e("go %s.m%d(%s, %s, cs1, done)" % (args_a, k, args_b, ch),
                  "simrt.Go4(%d, %s.m%d, %s, %s, cs1, done)" % (w.go_line, args_a, k, args_b, ch))
                w.entry = "(*S).m%d" % k
            elif f == "method_val":
                w.go_line = self.L()
                e("go V{%s}.m%d(%s, %s, cs1, done)" % (args_a, k, args_b, ch),
                  "simrt.Go4(%d, V{%s}.m%d, %s, %s, cs1, done)" % (w.go_line, args_a, k, args_b, ch))
                w.entry = "(V).m%d" % k
            elif f == "method_value":
                e("mv%d := %s.m%d" % (k, args_a, k))
                w.go_line = self.L()
                e("go mv%d(%s, %s, cs1, done)" % (k, args_b, ch),
                  "simrt.Go4(%d, mv%d, %s, %s, cs1, done)" % (w.go_line, k, args_b, ch))
                w.entry = "(*S).m%d" % k
            elif f == "method_expr":
                w.go_line = self.L()
                e("go (*S).m%d(%s)" % (k, args), "simrt.Go5(%d, (*S).m%d, %s)" % (w.go_line, k, args))
                w.entry = "(*S).m%d" % k
            elif f == "funcvar":
                e("GFn = w%d" % k)
                w.go_line = self.L()
                e("go GFn(%s)" % args, "simrt.Go5(%d, GFn, %s)" % (w.go_line, args))
                w.entry = "w%d" % k
            elif f == "funcfield":
                e("h%d := &H{fn: w%d}" % (k, k))
                w.go_line = self.L()
                e("go h%d.fn(%s)" % (k, args), "simrt.Go5(%d, h%d.fn, %s)" % (w.go_line, k, args))
                w.entry = "w%d" % k
            elif f == "funcparam":
                e("launch%d(w%d, %s)" % (k, k, args))
                w.entry = "w%d" % k
            elif f == "generic_launch":
                # one go statement in a generic function, two instantiations launching different methods;
                # the second instantiation (value receiver type V) is the twin worker
                e("spawn%d(%s, %s, %s, cs1, done)" % (k, args_a, args_b, ch))
                e("spawn%d(V{%s}, %s, %s, cs1, done)" % (k, args_b, args_a, ch))
                w.entry = "(*S).m%d" % k
                w.twin_entry = "(V).m%d" % k
                self.spawned += 1  # the twin signals done as well
            elif f == "iface":
                e("var r%d R%d = %s" % (k, k, args_a))
                w.go_line = self.L()
                e("go r%d.m%d(%s, %s, cs1, done)" % (k, k, args_b, ch),
                  "simrt.Go4(%d, r%d.m%d, %s, %s, cs1, done)" % (w.go_line, k, k, args_b, ch))
                w.entry = "(*S).m%d" % k
            self.body(menv, r.below(3))
        for _ in range(nw + self.spawned):
            ln = self.L()
            self.emit("<-done", "simrt.Recv(%d, done)" % ln)
        menv["is_main"] = False
        self.body(menv, 1 + r.below(4))
        # a final sink of everything main can reach
        for what in (("a1", "a2", "a3", "GS", "G0", "G1") if self.use_globals else ("a1", "a2", "a3")):
            ln = self.L()
            self.stmt("sink1(%s)" % what, "simb.Sink(%d, %s)" % (ln, what))
            self.sink_lines.append(ln)
        self.indent = 0
        e("}")
        e("")
        # anonymous functions of main are numbered main$1, main$2, ... in source order; closures in bodies count too.
        # The entry names of literal workers are therefore resolved by the static side by go line, not by name.
        # ---- launch helpers and out-of-line workers
        for w in self.workers:
            k = w.k
            if w.form == "funcparam":
                e("func launch%d(fn func(%s), %s) {" % (k, PARAMS, PARAMS))
                w.go_line = self.L()
                e("\tgo fn(a, b, c, cs, done)", "\tsimrt.Go5(%d, fn, a, b, c, cs, done)" % w.go_line)
                e("}")
                e("")
            if w.form == "generic_launch":
                e("func spawn%d[T R%d](r T, b *S, c chan string, cs chan *S, done chan bool) {" % (k, k))
                w.go_line = self.L()
                e("\tgo r.m%d(b, c, cs, done)" % k, "\tsimrt.Go4(%d, r.m%d, b, c, cs, done)" % (w.go_line, k))
                e("}")
                e("")
                # the twin: same method name on the value type V, no recovering defer, own fault point
                e("func (v V) m%d(b *S, c chan string, cs chan *S, done chan bool) {" % k)
                ln = self.L()
                e("\tdefer func() { done <- true }()", "\tdefer func() { simrt.Send(%d, done, true) }()" % ln)
                e("\ta := v.p")
                e("\t_ = a")
                if self.faults:
                    ln = self.L()
                    e('\tif fault(%d) { panic("boom") }' % ln, '\tif simb.Fault(%d) { panic("boom") }' % ln)
                    w.twin_fault_lines = [ln]
                ln = self.L()
                e("\ta.g = b.f", "\tsimrt.Yield(%d); simb.Acc(%d, &a.g, 1); simb.Acc(%d, &b.f, 0); a.g = b.f" % (ln, ln, ln))
                e("}")
                e("")
            if w.form in ("named", "funcvar", "funcfield", "funcparam"):
                e("func w%d(%s) {" % (k, PARAMS))
                objs = ["a", "b"]
            elif w.form == "generic":
                e("func g%d[T any](%s) {" % (k, PARAMS))
                objs = ["a", "b"]
            elif w.form in ("method_ptr", "method_value", "method_expr", "iface", "generic_launch"):
                e("func (a *S) m%d(b *S, c chan string, cs chan *S, done chan bool) {" % k)
                objs = ["a", "b"]
            elif w.form == "method_val":
                e("func (v V) m%d(b *S, c chan string, cs chan *S, done chan bool) {" % k)
                e("\ta := v.p")
                e("\t_ = a")
                objs = ["a", "b"]
            else:
                continue
            self.indent = 1
            self.worker_body(w, self.env(objs, ["c"], ["cs"], w.chanmap))
            self.indent = 0
            e("}")
            e("")
        # trailing lines that exist only in the executed variant
        self.extra = ["", "func main() { simb.Main(pmain) }", "var _ = simrt.Yield", "var _ = simb.Acc", ""]
        return self

    def clean(self):
        return "\n".join(c for c, _ in self.lines) + "\n"

    def executed(self):
        return "\n".join(x for _, x in self.lines) + "\n" + "\n".join(self.extra)

    def meta(self):
        return {"workers": [{"k": w.k, "form": w.form, "defer": w.dform, "go_line": w.go_line, "entry": w.entry,
                             "recovers": w.recovers, "fault_lines": w.fault_lines, "first_line": w.first_line,
                             "last_line": w.last_line, "twin_entry": w.twin_entry,
                             "twin_fault_lines": w.twin_fault_lines} for w in self.workers],
                "source_lines": self.source_lines, "sink_lines": self.sink_lines,
                "features": sorted(self.features | ({"globals"} if self.use_globals else {"no-globals"})),
                "nlines": len(self.lines)}


def generate(seed, idx, **kw):
    rng = Rng(seed * 7919 + idx * 104729 + 13)
    g = Gen(rng, **kw).generate()
    return {"name": "cgen-%d-%d" % (seed, idx), "clean": g.clean(), "exec": g.executed(), "meta": g.meta()}


def program_for_analysis(seed, idx, **kw):
    p = generate(seed, idx, **kw)
    return {"kind": "src", "name": p["name"], "text": p["clean"], "config": CONFIG}


# =============================================================== focused programs
#
# Small programs built around ONE sharing pattern, so that a single wrong classification is not masked by other
# escapes or flows of the same source. main shares an object with one goroutine; one side stores source data through
# the pattern, the other side sinks what it can reach.

PATTERNS = [
    # name, writer statements (use a = shared object, x = tainted string), features
    ("field", ["a.f = x"], [("&a.f", 1)]),
    ("deep-field", ["a.n.f = x"], [("&a.n", 0), ("&a.n.f", 1)]),
    ("helper", ["hset(a, x)"], []),
    ("iface-ptr-arg", ["var i I = b", "i.Put(a, x)"], []),
    ("iface-ptr-arg-deep", ["var i I = b", "i.Put(a.n, x)"], [("&a.n", 0)]),
    ("iface-link", ["o := newS()", "o.f = x", "var i I = a", "i.Link(o)"], []),
    ("method-ptr-arg", ["b.Put(a, x)"], []),
    ("closure", ["fn := func() { a.f = x }", "fn()"], []),
    ("closure-param", ["apply(func(o *S) { o.f = x }, a)"], []),
    ("interior-pointer", ["p := &a.f", "*p = x"], [("p", 1)]),
    ("interior-pointer-deep", ["p := &a.n.g", "*p = x"], [("p", 1)]),
    ("map", ['a.m["k"] = x'], [("&a.m", 0), ("a.m", 1)]),
    ("slice", ["a.l[1] = x"], [("&a.l", 0), ("&a.l[1]", 1)]),
    ("append", ["a.l = append(a.l, x)"], [("&a.l", 1)]),
    ("link", ["o := newS()", "o.f = x", "a.n = o"], [("&a.n", 1)]),
    ("swap", ["o := newS()", "o.f = x", "hswap(a, o)"], []),
    ("recv-then-store", ["a.n.n.f = x"], [("&a.n", 0), ("&a.n.n", 0), ("&a.n.n.f", 1)]),
]


def focused(seed, idx):
    """One pattern, one shared object, one goroutine. Returns the same dict shape as generate()."""
    rng = Rng(seed * 6151 + idx * 389 + 7)
    g = Gen(rng, nworkers=1, forms=["named"], dforms=["none"], stmts=1, faults=False, use_globals=False)
    e = g.emit
    name, writer, waccs = PATTERNS[idx % len(PATTERNS)] if rng.chance(80) else rng.pick(PATTERNS)
    # how the object reaches the goroutine
    share = rng.pick(["go-arg", "go-arg", "capture", "chan", "field-of-arg", "spawn-in-callee", "spawn-in-callee",
                      "spawn-interior", "spawn-interior"])
    writer_is_main = rng.chance(60)
    fresh_inner = rng.chance(70)  # a.n is a distinct object (not the self loop newS builds)
    if share == "spawn-interior":
        # a callee hands an interior pointer (&a.n.f or &a.f) to a goroutine; the other side uses the field directly
        fresh_inner = True
        inner = rng.pick(["a.n.f", "a.n.f", "a.f", "a.n.n.f"])
        name, writer, waccs = "interior-of-" + inner, ["%s = x" % inner], [("&" + inner, 1)]
    g.features |= {"focused", "pattern:" + name, "share:" + share, "writer:" + ("main" if writer_is_main else "goroutine")}
    e("package main", 'package main; import ("simrt"; "simrt/simb")')
    e("")
    e("type S struct {")
    e("\tf string")
    e("\tg string")
    e("\tn *S")
    e("\tm map[string]string")
    e("\tl []string")
    e("}")
    e("")
    e("type I interface {")
    e("\tPut(o *S, x string)")
    e("\tLink(o *S)")
    e("}")
    e("")
    ln = g.L()
    e("func (s *S) Put(o *S, x string) { o.f = x }", "func (s *S) Put(o *S, x string) { simb.Acc(%d, &o.f, 1); o.f = x }" % ln)
    ln = g.L()
    e("func (s *S) Link(o *S)          { s.n = o }", "func (s *S) Link(o *S)          { simb.Acc(%d, &s.n, 1); s.n = o }" % ln)
    e('func newS() *S { s := &S{m: map[string]string{}, l: []string{"", ""}}; s.n = s; return s }')
    e('func source1() string { return "src" }')
    e("func sink1(x any)      {}")
    ln = g.L()
    e("func hset(a *S, x string) { a.g = x }", "func hset(a *S, x string) { simb.Acc(%d, &a.g, 1); a.g = x }" % ln)
    ln = g.L()
    e("func hswap(a *S, b *S)    { a.f, b.f = b.f, a.f }",
      "func hswap(a *S, b *S)    { simb.Acc(%d, &a.f, 1); simb.Acc(%d, &b.f, 1); a.f, b.f = b.f, a.f }" % (ln, ln))
    e("func apply(fn func(o *S), a *S) { fn(a) }")
    e("type Box struct{ p *S }")
    e("")

    def body(role_writer, indent, via_pointer=False):
        g.indent = indent
        if via_pointer:
            if role_writer:
                ln = g.L()
                g.stmt("*p = source1()", "*p = simb.Src(%d)" % ln, accs=[("p", 1)])
                g.source_lines.append(ln)
            else:
                ln = g.L()
                g.stmt("sink1(*p)", "simb.Sink(%d, *p)" % ln, accs=[("p", 0)])
                g.sink_lines.append(ln)
            return
        if role_writer:
            ln = g.L()
            g.stmt("x := source1()", "x := simb.Src(%d)" % ln)
            g.source_lines.append(ln)
            g.stmt("_ = x")
            for k, st in enumerate(writer):
                g.stmt(st, accs=waccs if k == len(writer) - 1 else ())
        else:
            choices = [["a"], ["a.f", "a.g", "a.n"], ["a.n.f", "a"], ['a.m["k"]', "a.l", "a"]]
            if share == "spawn-interior":
                choices = [[inner], [inner, "a"]]
            for what in rng.pick(choices):
                ln = g.L()
                g.stmt("sink1(%s)" % what, "simb.Sink(%d, %s)" % (ln, what))
                g.sink_lines.append(ln)

    # the goroutine
    w = g.workers[0]
    if share == "spawn-interior":
        e("func w0(p *string, b *S, done chan bool) {")
    else:
        e("func w0(a *S, b *S, done chan bool) {")
    ln = g.L()
    e("\tdefer func() { done <- true }()", "\tdefer func() { simrt.Send(%d, done, true) }()" % ln)
    body(not writer_is_main, 1, via_pointer=(share == "spawn-interior"))
    g.indent = 0
    e("}")
    e("")
    if share == "spawn-interior":
        e("func publish(a *S, b *S, done chan bool) {")
        w.go_line = g.L()
        pre = "simb.Acc(%d, &a.n, 0); " % w.go_line if ".n." in inner else ""
        e("\tgo w0(&%s, b, done)" % inner, "\t%ssimrt.Go3(%d, w0, &%s, b, done)" % (pre, w.go_line, inner))
        e("}")
        e("")
    if share == "spawn-in-callee":
        e("func publish(a *S, b *S, done chan bool) {")
        w.go_line = g.L()
        tgt = rng.pick(["a", "a", "a.n"]) if fresh_inner else "a"
        e("\tgo w0(%s, b, done)" % tgt, "\tsimrt.Go3(%d, w0, %s, b, done)" % (w.go_line, tgt))
        e("}")
        e("")
    if share == "chan":
        e("func wc(cs chan *S, b *S, done chan bool) {")
        ln = g.L()
        e("\ta := <-cs", "\ta := simrt.Recv(%d, cs)" % ln)
        e("\tw0(a, b, done)")
        e("}")
        e("")
    if share == "field-of-arg":
        e("func wb(bx *Box, b *S, done chan bool) { w0(bx.p, b, done) }")
        e("")
    e("func main() {", "func pmain() {")
    g.indent = 1
    e("done := make(chan bool, 4)")
    if rng.chance(50):
        # objects built with composite literals in main itself (allocation sites are main's own instructions)
        lit = 'm: map[string]string{}, l: []string{"", ""}'
        e("a := &S{%s, n: &S{%s, n: &S{%s}}}" % (lit, lit, lit))
        e("b := &S{%s}" % lit)
        e("b.n = b")
        g.features.add("alloc:literal")
    else:
        e("a := newS()")
        e("b := newS()")
        if fresh_inner:
            ln = g.L()
            e("a.n = newS()", "simb.Acc(%d, &a.n, 1); a.n = newS()" % ln)
            if name == "recv-then-store" or share == "spawn-interior":
                e("a.n.n = newS()")
        g.features.add("alloc:constructor")
    e("_, _ = a, b")
    if share == "go-arg":
        w.go_line = g.L()
        e("go w0(a, b, done)", "simrt.Go3(%d, w0, a, b, done)" % w.go_line)
    elif share == "capture":
        w.go_line = g.L()
        e("go func() { w0(a, b, done) }()", "simrt.Go0(%d, func() { w0(a, b, done) })" % w.go_line)
    elif share == "chan":
        e("cs := make(chan *S, 1)")
        w.go_line = g.L()
        e("go wc(cs, b, done)", "simrt.Go3(%d, wc, cs, b, done)" % w.go_line)
        ln = g.L()
        e("cs <- a", "simrt.Send(%d, cs, a)" % ln)
    elif share == "field-of-arg":
        e("bx := &Box{p: a}")
        w.go_line = g.L()
        e("go wb(bx, b, done)", "simrt.Go3(%d, wb, bx, b, done)" % w.go_line)
    else:
        e("publish(a, b, done)")
    body(writer_is_main, 1)
    g.indent = 1
    ln = g.L()
    e("<-done", "simrt.Recv(%d, done)" % ln)
    if writer_is_main is False:
        # after the join main reads what the goroutine wrote
        for what in ("a", "b"):
            ln = g.L()
            g.stmt("sink1(%s)" % what, "simb.Sink(%d, %s)" % (ln, what))
            g.sink_lines.append(ln)
    g.indent = 0
    e("}")
    g.extra = ["", "func main() { simb.Main(pmain) }", "var _ = simrt.Yield", "var _ = simb.Acc", ""]
    w.entry = "w0"
    return {"name": "cfocus-%d-%d" % (seed, idx), "clean": g.clean(), "exec": g.executed(), "meta": g.meta()}


def generate_mixed(seed, idx, **kw):
    """Swarm over program styles: every second program is a focused one."""
    if idx % 2 == 1:
        k = idx // 2
        if k % 6 == 4:
            return focused_select(seed, k)
        if k % 6 == 5:
            return focused_closure_handoff(seed, k)
        return focused(seed, k)
    return generate(seed, idx, **kw)


def _mini_prelude(g, with_iface=False):
    e = g.emit
    e("package main", 'package main; import ("simrt"; "simrt/simb")')
    e("")
    e("type S struct {")
    e("\tf string")
    e("\tg string")
    e("\tn *S")
    e("}")
    e("")
    e("func newS() *S { s := &S{}; s.n = s; return s }")
    e('func source1() string { return "src" }')
    e("func sink1(x any)      {}")
    e("")


def focused_select(seed, idx):
    """A goroutine receives through a select with two receive cases: an untracked element type (string/int/bool)
    listed before or after a pointer channel; what it receives stays shared with main."""
    rng = Rng(seed * 7741 + idx * 53 + 3)
    g = Gen(rng, nworkers=1, forms=["named"], dforms=["none"], stmts=1, faults=False, use_globals=False)
    e = g.emit
    ctl_type = rng.pick(["string", "int", "bool"])
    ptr_first = rng.chance(40)
    worker_writes = rng.chance(50)
    send_ctl_too = rng.chance(30)
    g.features |= {"focused", "pattern:select-recv", "select:" + ("ptr-first" if ptr_first else "untracked-first"),
                   "writer:" + ("goroutine" if worker_writes else "main")}
    _mini_prelude(g)
    w = g.workers[0]
    e("func w0(ctl chan %s, jobs chan *S, done chan bool) {" % ctl_type)
    ln = g.L()
    e("\tdefer func() { done <- true }()", "\tdefer func() { simrt.Send(%d, done, true) }()" % ln)
    ln = g.L()
    if ptr_first:
        e("\tselect {", "\tswitch i_, vj_, vc_ := simrt.SelectRecv2(%d, jobs, ctl); i_ {" % ln)
        cases = [("j", "jobs", "vj_", "vc_", True), ("c", "ctl", "vc_", "vj_", False)]
    else:
        e("\tselect {", "\tswitch i_, vc_, vj_ := simrt.SelectRecv2(%d, ctl, jobs); i_ {" % ln)
        cases = [("c", "ctl", "vc_", "vj_", False), ("j", "jobs", "vj_", "vc_", True)]
    for ci, (v, ch, mine, other, isptr) in enumerate(cases):
        e("\tcase %s := <-%s:" % (v, ch), "\tcase %d: %s := %s; _ = %s" % (ci, v, mine, other))
        g.indent = 2
        if isptr:
            if worker_writes:
                ln = g.L()
                g.stmt("j.f = source1()", "j.f = simb.Src(%d)" % ln, accs=[("&j.f", 1)])
                g.source_lines.append(ln)
            else:
                ln = g.L()
                g.stmt("sink1(j.f)", "simb.Sink(%d, j.f)" % ln, accs=[("&j.f", 0)])
                g.sink_lines.append(ln)
        else:
            g.stmt("_ = c")
        g.indent = 0
    e("\t}")
    e("}")
    e("")
    e("func main() {", "func pmain() {")
    g.indent = 1
    e("done := make(chan bool, 2)")
    e("ctl := make(chan %s, 1)" % ctl_type)
    e("jobs := make(chan *S, 1)")
    e("a := newS()")
    w.go_line = g.L()
    e("go w0(ctl, jobs, done)", "simrt.Go3(%d, w0, ctl, jobs, done)" % w.go_line)
    ln = g.L()
    e("jobs <- a", "simrt.Send(%d, jobs, a)" % ln)
    if send_ctl_too:
        ln = g.L()
        val = {"string": '"c"', "int": "1", "bool": "true"}[ctl_type]
        e("ctl <- %s" % val, "simrt.Send(%d, ctl, %s)" % (ln, val))
    if worker_writes:
        ln = g.L()
        g.stmt("sink1(a.f)", "simb.Sink(%d, a.f)" % ln, accs=[("&a.f", 0)])
        g.sink_lines.append(ln)
    else:
        ln = g.L()
        g.stmt("a.f = source1()", "a.f = simb.Src(%d)" % ln, accs=[("&a.f", 1)])
        g.source_lines.append(ln)
    ln = g.L()
    e("<-done", "simrt.Recv(%d, done)" % ln)
    ln = g.L()
    g.stmt("sink1(a)", "simb.Sink(%d, a)" % ln)
    g.sink_lines.append(ln)
    g.indent = 0
    e("}")
    g.extra = ["", "func main() { simb.Main(pmain) }", "var _ = simrt.Yield", "var _ = simb.Acc", ""]
    w.entry = "w0"
    return {"name": "cselect-%d-%d" % (seed, idx), "clean": g.clean(), "exec": g.executed(), "meta": g.meta()}


def focused_closure_handoff(seed, idx):
    """Source data captured by a closure; the closure value (not the data) crosses to a goroutine that already holds
    the channel (or the shared object) and calls it; the closure body reaches a sink or stores into shared memory."""
    rng = Rng(seed * 9973 + idx * 71 + 5)
    g = Gen(rng, nworkers=1, forms=["named"], dforms=["none"], stmts=1, faults=False, use_globals=False)
    e = g.emit
    via = rng.pick(["chan", "chan", "field"])
    body = rng.pick(["sink", "sink", "store"])
    g.features |= {"focused", "pattern:closure-handoff", "via:" + via, "closure-body:" + body}
    _mini_prelude(g)
    e("type Box struct{ fn func() }")
    e("")
    w = g.workers[0]
    if via == "chan":
        e("func w0(jobs chan func(), a *S, done chan bool) {")
        ln = g.L()
        e("\tdefer func() { done <- true }()", "\tdefer func() { simrt.Send(%d, done, true) }()" % ln)
        ln = g.L()
        e("\tf := <-jobs", "\tf := simrt.Recv(%d, jobs)" % ln)
        ln = g.L()
        e("\tf()", "\tsimrt.Yield(%d); f()" % ln)
    else:
        e("func w0(bx *Box, a *S, done chan bool) {")
        ln = g.L()
        e("\tdefer func() { done <- true }()", "\tdefer func() { simrt.Send(%d, done, true) }()" % ln)
        ln = g.L()
        e("\tif bx.fn != nil {", "\tsimrt.Yield(%d); simb.Acc(%d, &bx.fn, 0); if bx.fn != nil {" % (ln, ln))
        e("\t\tbx.fn()")
        e("\t}")
    if body == "store":
        ln = g.L()
        g.indent = 1
        g.stmt("sink1(a.f)", "simb.Sink(%d, a.f)" % ln, accs=[("&a.f", 0)])
        g.sink_lines.append(ln)
        g.indent = 0
    e("}")
    e("")
    e("func main() {", "func pmain() {")
    g.indent = 1
    e("done := make(chan bool, 2)")
    e("a := newS()")
    if via == "chan":
        e("jobs := make(chan func(), 1)")
        w.go_line = g.L()
        e("go w0(jobs, a, done)", "simrt.Go3(%d, w0, jobs, a, done)" % w.go_line)
    else:
        e("bx := &Box{}")
        w.go_line = g.L()
        e("go w0(bx, a, done)", "simrt.Go3(%d, w0, bx, a, done)" % w.go_line)
    ln = g.L()
    g.stmt("x := source1()", "x := simb.Src(%d)" % ln)
    g.source_lines.append(ln)
    ln = g.L()
    if body == "sink":
        e("fn := func() { sink1(x) }", "fn := func() { simb.Sink(%d, x) }" % ln)
        g.sink_lines.append(ln)
    else:
        e("fn := func() { a.f = x }", "fn := func() { simb.Acc(%d, &a.f, 1); a.f = x }" % ln)
    ln = g.L()
    if via == "chan":
        e("jobs <- fn", "simrt.Send(%d, jobs, fn)" % ln)
    else:
        g.stmt("bx.fn = fn", accs=[("&bx.fn", 1)])
    ln = g.L()
    e("<-done", "simrt.Recv(%d, done)" % ln)
    ln = g.L()
    g.stmt("sink1(a)", "simb.Sink(%d, a)" % ln)
    g.sink_lines.append(ln)
    g.indent = 0
    e("}")
    g.extra = ["", "func main() { simb.Main(pmain) }", "var _ = simrt.Yield", "var _ = simb.Acc", ""]
    w.entry = "w0"
    return {"name": "chandoff-%d-%d" % (seed, idx), "clean": g.clean(), "exec": g.executed(), "meta": g.meta()}
