#!/usr/bin/env python3
"""Rewrites the table of section 8.4 of DESIGN.md from seeded/*/meta.json."""
import glob
import json
import os
import re

ROOT = os.path.dirname(os.path.dirname(os.path.abspath(__file__)))


def cell(x):
    if isinstance(x, list):
        x = "; ".join(x)
    return (x or "").replace("|", "\\|").replace("\n", " ")


rows = []
for d in sorted(glob.glob(os.path.join(ROOT, "seeded", "*"))):
    name = os.path.basename(d)
    mp = os.path.join(d, "meta.json")
    if name.startswith("known-") or not os.path.exists(mp):
        continue
    m = json.load(open(mp))
    caught = cell(m.get("caught_by"))
    if m.get("not_caught_by"):
        caught += " — not by: " + cell(m["not_caught_by"])
    rows.append("| `%s` | %s | %s | %s | %s |" % (name, m.get("property", ""), cell(m.get("what")), caught,
                                               cell(m.get("strengthening", "") or "-")))
p = os.path.join(ROOT, "DESIGN.md")
s = open(p).read()
head = "| seeded change | property | what it does | caught by | what had to be strengthened first |\n|---|---|---|---|---|\n"
i = s.index(head) + len(head)
j = s.index("\nOutcome.", i)
s = s[:i] + "\n".join(rows) + "\n" + s[j:]
open(p, "w").write(s)
print("%d rows" % len(rows))
