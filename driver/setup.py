"""setup_cmd: builds the helper tools and runs the simulator's self-test (determinism of the scheduler,
sensitivity of the scheduler-blind race oracle, deadlock and leak detection)."""
import hashlib
import json
import os
import subprocess
import tempfile

from common import GOENV, VERIF, build_tool, log, sh, scratch_root


def run():
    build_tool("simrewrite", "simrewrite")
    d = tempfile.mkdtemp(prefix="verif-selftest-", dir=scratch_root())
    try:
        exe = os.path.join(d, "selftest")
        sh(["go", "build", "-race", "-o", exe, "./selftest"], cwd=os.path.join(VERIF, "simrt"))
        # determinism: same tapes, several processes, several GOMAXPROCS
        digests = set()
        for gmp in ("1", "4", "16"):
            for _ in range(2):
                env = dict(GOENV)
                env["GOMAXPROCS"] = gmp
                p = subprocess.run([exe, "-mode", "clean", "-seeds", "150"], env=env, stdout=subprocess.PIPE,
                                   stderr=subprocess.PIPE, timeout=600)
                if p.returncode != 0 or b"DATA RACE" in p.stderr:
                    log("selftest: clean mode failed:\n" + p.stderr.decode()[-2000:])
                    return 2
                digests.add(hashlib.sha256(p.stdout).hexdigest())
        if len(digests) != 1:
            log("selftest: event logs differ between processes (%d variants)" % len(digests))
            return 2
        # sensitivity: two tasks that never overlap in time but share unsynchronised state must be reported
        p = subprocess.run([exe, "-mode", "racy", "-seeds", "1"], env=GOENV, stdout=subprocess.PIPE,
                           stderr=subprocess.PIPE, timeout=120)
        if b"DATA RACE" not in p.stderr:
            log("selftest: the race detector did not see a race across the baton")
            return 2
        p = subprocess.run([exe, "-mode", "deadlock", "-seeds", "1"], env=GOENV, stdout=subprocess.PIPE,
                           stderr=subprocess.PIPE, timeout=120)
        if not json.loads(p.stdout.splitlines()[0])["res"]["deadlock"]:
            log("selftest: deadlock not detected")
            return 2
        p = subprocess.run([exe, "-mode", "leak", "-seeds", "1"], env=GOENV, stdout=subprocess.PIPE,
                           stderr=subprocess.PIPE, timeout=120)
        if not json.loads(p.stdout.splitlines()[0])["res"].get("alive_at_main_return"):
            log("selftest: goroutines alive at main return not detected")
            return 2
        log("selftest ok: 6 processes x 150 tapes byte-identical; race, deadlock and leak oracles fire")
        return 0
    finally:
        import shutil
        shutil.rmtree(d, ignore_errors=True)
