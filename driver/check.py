#!/usr/bin/env python3
"""Entry point: check <property> [--tier quick|thorough] [--replay file] | check --setup"""
import argparse
import os
import sys
import time
import traceback

sys.path.insert(0, os.path.dirname(os.path.abspath(__file__)))

from common import Inconclusive, log  # noqa: E402


def main():
    ap = argparse.ArgumentParser()
    ap.add_argument("prop", nargs="?")
    ap.add_argument("--tier", default=os.environ.get("VERIF_TIER", "quick"))
    ap.add_argument("--replay")
    ap.add_argument("--seed", type=int, default=int(os.environ.get("VERIF_SEED", "20260922")))
    ap.add_argument("--setup", action="store_true")
    a = ap.parse_args()
    tier = a.tier if a.tier in ("quick", "thorough") else "quick"
    try:
        if a.setup:
            import setup
            return setup.run()
        import checks_a
        table = {"C20": checks_a.check_c20}
        for name in ("check_c06", "check_c05", "check_c17"):
            if hasattr(checks_a, name):
                table[name[-3:].upper()] = getattr(checks_a, name)
        try:
            import checks_b
            table.update(checks_b.TABLE)
        except ImportError:
            pass
        try:
            import checks_e
            table.update(checks_e.TABLE)
        except ImportError:
            pass
        if a.prop not in table:
            log("unknown or unclaimed property %r" % a.prop)
            return 2
        log("VERIF_SEED=%d tier=%s property=%s" % (a.seed, tier, a.prop))
        if a.replay:
            mod = sys.modules[table[a.prop].__module__]
            return mod.run_replay(a.prop, a.replay)
        return table[a.prop](tier, a.seed)
    except Inconclusive as e:
        log("INCONCLUSIVE (exit 2): %s" % e)
        return 2
    except Exception:  # noqa
        traceback.print_exc()
        return 2


if __name__ == "__main__":
    sys.exit(main())
