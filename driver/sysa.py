"""System A: the analyser run as a concurrent program under simrt. Job construction, swarm parameters,
minimisation, and the oracles shared by C05 C06 C17 C20."""
import copy
import json
import os

from common import (Rng, make_tape, trim_tape, run_jobs, run_one, find_site, log, REPO, Inconclusive, hash_str)
import tgen

MAX_STEPS = 6000000

CORPUS = [
    # (directory under analysis/taint/testdata, extra options) : std-importing programs, slow under simulation
    ("basic", {}), ("closures", {}), ("globals", {}), ("fields", {}), ("interfaces", {}),
    ("parameters", {}), ("tuples", {}), ("defers", {}), ("sanitizers", {}), ("example1", {}),
]


def base_params():
    return {"tape": [], "numcpu": 1, "map_perm_pct": 0, "map_salt": 0, "range_yield_pct": 0, "max_steps": MAX_STEPS}


def swarm_params(rng, writer_site=0, allow_writer_starve=False):
    """One set of run parameters drawn from the seed."""
    p = base_params()
    style = rng.pick(["uniform", "uniform", "sticky", "sparse"])
    p["tape"] = make_tape(rng, 6000, style)
    p["numcpu"] = rng.pick([1, 2, 3, 4, 5, 9, 17])  # the analyser uses NumCPU-1 (+1) workers
    p["map_perm_pct"] = rng.pick([0, 5, 30, 100, 100])
    p["map_salt"] = rng.next() & 0xFFFFFFFF
    p["range_yield_pct"] = rng.pick([0, 0, 0, 10, 40])
    if rng.chance(25):
        p["prio_salt"] = (rng.next() & 0xFFFFFFFF) | 1
        p["tape"] = make_tape(rng, 6000, "sparse")
    if allow_writer_starve and writer_site and rng.chance(60):
        p["starve_site"] = writer_site
        p["starve_from"] = rng.pick([0, 0, 50, 200])
        p["starve_len"] = rng.pick([50, 500, 5000, 1000000])
    elif rng.chance(15):
        p["starve_task"] = 1 + rng.below(6)
        p["starve_from"] = rng.below(300)
        p["starve_len"] = 20 + rng.below(400)
    p["_style"] = style
    return p


def strip(p):
    return {k: v for k, v in p.items() if not k.startswith("_")}


def make_job(jid, kind, prog, options, params, events=False):
    j = {"id": jid, "kind": kind, "options": options, "params": strip(params)}
    if events:
        j["events"] = True
    if prog["kind"] == "src":
        j["files"] = {"main.go": prog["text"]}
        if prog.get("lib"):
            j["files"]["lib/lib.go"] = prog["lib"]
        j["config"] = prog.get("config", tgen.CONFIG)
    else:
        d = os.path.join(REPO, prog["dir"])
        j["dir"] = d
        j["config"] = open(os.path.join(d, prog.get("config_file", "config.yaml"))).read()
        j["config_path"] = os.path.join(d, prog.get("config_file", "config.yaml"))
    return j


def gen_program(seed, idx, **kw):
    rng = Rng(seed * 1000003 + idx)
    return {"kind": "src", "name": "tgen-%d-%d" % (seed, idx), "text": tgen.generate(rng, **kw)}


def gen_program_multi(seed, idx, **kw):
    """Two packages: main and m/lib (so that pkg-filter has something to exclude)."""
    rng = Rng(seed * 1000003 + idx + 77)
    return {"kind": "src", "name": "tgen2-%d-%d" % (seed, idx), "text": tgen.generate(rng, lib=True, **kw),
            "lib": tgen.LIB, "config": tgen.CONFIG_MULTI}


def corpus_program(name):
    return {"kind": "dir", "name": "corpus-" + name, "dir": "analysis/taint/testdata/" + name}


def result_key(r):
    """The observable verdict of a run, canonical."""
    return {"flows": r.get("flows") or [], "escapes": r.get("escapes") or [], "traces": r.get("traces") or [],
            "err": bool(r.get("err")), "panic": bool(r.get("panic"))}


def classify_hard(r):
    """Returns a reason string if the run could not produce a verdict for harness reasons, else None."""
    if r is None:
        return "no result"
    if r.get("timeout"):
        return "timeout"
    if r.get("load_err"):
        return "load_err: " + r["load_err"][:300]
    sim = r.get("sim") or {}
    if sim.get("budget"):
        return "step budget"
    return None


def short_panic(text):
    import re
    if not text:
        return ""
    first = text.strip().split("\n")[0][:200]
    first = re.sub(r"0x[0-9a-f]+", "0x?", first)
    m = re.findall(r"\n\t?\S*?((?:analysis|internal)/[^\s:]+\.go):(\d+)", text)
    where = ""
    for f, l in m:
        if "zzverif" in f:
            continue
        where = " at %s:%s" % (f, l)
        break
    return first + where


# ---------------------------------------------------------------- minimisation

def minimise(binary, job, still_fails, budget=140):
    """Shrinks tape, parameters and (for generated programs) the program text while still_fails(result, job)
    holds. Every candidate runs in a fresh worker process; predicates that compare against a reference run
    recompute the reference for the candidate job (a shrunk program has another reference verdict)."""
    attempts = [0]

    def ok(j):
        if attempts[0] >= budget:
            return False
        attempts[0] += 1
        r = run_one(binary, j, timeout=300)
        try:
            return bool(still_fails(r, j))
        except Exception:  # noqa
            return False

    cur = copy.deepcopy(job)
    if not ok(cur):
        return job, False
    p = cur["params"]
    # parameters back to calm values one by one
    for k, v in (("prio_salt", 0), ("starve_len", 0), ("starve_site", 0), ("range_yield_pct", 0), ("map_perm_pct", 0)):
        if p.get(k):
            c = copy.deepcopy(cur)
            c["params"][k] = v
            if ok(c):
                cur = c
    for n in (1, 2, 3, 4):
        if cur["params"].get("numcpu", 1) > n:
            c = copy.deepcopy(cur)
            c["params"]["numcpu"] = n
            if ok(c):
                cur = c
                break
    # tape: shortest prefix by bisection
    tape = trim_tape(cur["params"]["tape"])
    lo, hi = 0, len(tape)
    c = copy.deepcopy(cur)
    c["params"]["tape"] = []
    if ok(c):
        tape = []
    else:
        while lo + 1 < hi and attempts[0] < budget:
            mid = (lo + hi) // 2
            c = copy.deepcopy(cur)
            c["params"]["tape"] = tape[:mid]
            if ok(c):
                hi = mid
            else:
                lo = mid
        tape = tape[:hi]
        # zero blocks
        size = max(1, len(tape) // 2)
        while size >= 1 and attempts[0] < budget:
            i = 0
            while i < len(tape) and attempts[0] < budget:
                if any(tape[i:i + size]):
                    t2 = tape[:i] + [0] * len(tape[i:i + size]) + tape[i + size:]
                    c = copy.deepcopy(cur)
                    c["params"]["tape"] = t2
                    if ok(c):
                        tape = t2
                i += size
            size //= 2
    cur["params"]["tape"] = trim_tape(tape)
    # program text: greedy removal of lines / balanced blocks inside function bodies
    if "files" in cur:
        text = cur["files"]["main.go"]
        marker = text.find("func f0(")
        if marker > 0:
            head, body = text[:marker], text[marker:]
            lines = body.split("\n")
            i = len(lines) - 1
            while i >= 0 and attempts[0] < budget:
                ln = lines[i].strip()
                if not ln or ln.startswith("func ") or ln == "}" or ln.startswith("return") or ln.startswith("}"):
                    i -= 1
                    continue
                j = i + 1
                if ln.endswith("{"):
                    depth = 1
                    while j < len(lines) and depth > 0:
                        depth += lines[j].count("{") - lines[j].count("}")
                        j += 1
                cand = lines[:i] + lines[j:]
                c = copy.deepcopy(cur)
                c["files"]["main.go"] = head + "\n".join(cand)
                if ok(c):
                    lines = cand
                    cur = c
                i -= 1
    return cur, True
