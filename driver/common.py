"""Shared machinery of the checks: build of the instrumented scratch copy, worker pool, replay files,
known findings, evidence."""
import hashlib
import json
import os
import queue
import shutil
import subprocess
import sys
import tempfile
import threading
import time

VERIF = os.path.dirname(os.path.dirname(os.path.abspath(__file__)))
REPO = os.environ.get("VERIF_REPO", "/repo")
CACHE = os.path.expanduser("~/.cache/verif-argot")
SIMRT_PATH = "github.com/awslabs/ar-go-tools/internal/zzverif/simrt"
NPROC = int(os.environ.get("VERIF_JOBS", str(min(16, os.cpu_count() or 4))))

GOENV = dict(os.environ)
GOENV.update({"GOFLAGS": "-mod=mod", "GOPROXY": "off", "GOSUMDB": "off", "GOTOOLCHAIN": "local",
              "CGO_ENABLED": "1"})


class Inconclusive(Exception):
    """Build trouble, unsupported construct, budget: exit status 2, never a VIOLATION."""


def log(*a):
    print(*a, file=sys.stderr, flush=True)


def sh(cmd, cwd=None, env=None, timeout=1800, check=True):
    p = subprocess.run(cmd, cwd=cwd, env=env or GOENV, stdout=subprocess.PIPE, stderr=subprocess.STDOUT,
                       timeout=timeout, text=True)
    if check and p.returncode != 0:
        raise Inconclusive("command failed (%d): %s\n%s" % (p.returncode, " ".join(cmd), p.stdout[-4000:]))
    return p


def scratch_root():
    for d in (os.environ.get("TMPDIR"), "/dev/shm", "/var/tmp"):
        if d and os.path.isdir(d) and os.access(d, os.W_OK):
            return d
    return tempfile.gettempdir()


REPO_PARTS = ["go.mod", "go.sum", "analysis", "internal", "cmd"]
VERIF_PARTS = ["simrt", "simrewrite", "harness"]


def _files(root, parts):
    out = []
    for p in parts:
        full = os.path.join(root, p)
        if os.path.isfile(full):
            out.append(p)
        elif os.path.isdir(full):
            for dp, dn, fn in os.walk(full):
                dn[:] = sorted(d for d in dn if d not in (".git", "zzverif"))
                for f in sorted(fn):
                    out.append(os.path.relpath(os.path.join(dp, f), root))
    return sorted(out)


def tree_hash():
    h = hashlib.sha256()
    for root, parts in ((REPO, REPO_PARTS), (VERIF, VERIF_PARTS)):
        for rel in _files(root, parts):
            if rel.endswith((".out", ".test")):
                continue
            h.update(rel.encode())
            h.update(b"\0")
            try:
                with open(os.path.join(root, rel), "rb") as f:
                    h.update(hashlib.sha256(f.read()).digest())
            except OSError:
                pass
    return h.hexdigest()[:24]


def build_tool(name, srcdir):
    """Builds a helper tool of /verif (not instrumented code) into the cache."""
    h = hashlib.sha256()
    for rel in _files(VERIF, [srcdir]):
        h.update(rel.encode())
        with open(os.path.join(VERIF, rel), "rb") as f:
            h.update(f.read())
    d = os.path.join(CACHE, "tools", h.hexdigest()[:16])
    out = os.path.join(d, name)
    if os.path.exists(out):
        return out
    os.makedirs(d, exist_ok=True)
    tmp = out + ".tmp%d" % os.getpid()
    sh(["go", "build", "-o", tmp, "."], cwd=os.path.join(VERIF, srcdir))
    os.replace(tmp, out)
    return out


_build_lock = threading.Lock()


def build(extra_mains=(), skip_pkgs="internal/zzverif,internal/pointer", tag="std"):
    """Returns the directory holding the binaries built from the instrumented copy of /repo's working tree."""
    key = tree_hash() + "-" + tag + "-r2"  # r<N>: revision of the build recipe below
    d = os.path.join(CACHE, key)
    marker = os.path.join(d, "OK")
    if os.path.exists(marker):
        try:
            os.utime(d, None)
        except OSError:
            pass
        return d
    with _build_lock:
        if os.path.exists(marker):
            return d
        t0 = time.time()
        rewriter = build_tool("simrewrite", "simrewrite")
        scratch = tempfile.mkdtemp(prefix="verif-scr-", dir=scratch_root())
        try:
            for rel in _files(REPO, REPO_PARTS):
                dst = os.path.join(scratch, rel)
                os.makedirs(os.path.dirname(dst), exist_ok=True)
                shutil.copy2(os.path.join(REPO, rel), dst)
            zz = os.path.join(scratch, "internal", "zzverif")
            os.makedirs(os.path.join(zz, "simrt"))
            for f in os.listdir(os.path.join(VERIF, "simrt")):
                if f.endswith(".go"):
                    shutil.copy2(os.path.join(VERIF, "simrt", f), os.path.join(zz, "simrt", f))
            shutil.copytree(os.path.join(VERIF, "harness"), os.path.join(zz, "harness"),
                            ignore=shutil.ignore_patterns("cmd"))
            shutil.copytree(os.path.join(VERIF, "harness", "cmd"), os.path.join(zz, "cmd"))
            gomod = os.path.join(scratch, "go.mod")
            txt = open(gomod).read()
            import re
            txt, n = re.subn(r"(?m)^go 1\.\d+(\.\d+)?$", "go 1.23", txt, count=1)
            if n != 1:
                raise Inconclusive("cannot set the go version in the scratch go.mod")
            open(gomod, "w").write(txt)
            os.makedirs(d, exist_ok=True)
            p = sh([rewriter, "-dir", scratch, "-simrt", SIMRT_PATH, "-skip", skip_pkgs,
                    "-sites", os.path.join(d, "sites.json"), "./analysis/...", "./internal/..."],
                   cwd=scratch, check=False)
            if p.returncode != 0:
                raise Inconclusive("instrumentation failed:\n" + p.stdout[-4000:])
            mains = ["simharness"] + list(extra_mains)
            for m in mains:
                p = sh(["go", "build", "-race", "-tags", "verif", "-trimpath", "-o", os.path.join(d, m),
                        "./internal/zzverif/cmd/" + m], cwd=scratch, check=False)
                if p.returncode != 0:
                    raise Inconclusive("build of instrumented tree failed:\n" + p.stdout[-6000:])
                # the same code without the race detector, for checks whose oracles compare results only
                p = sh(["go", "build", "-tags", "verif", "-trimpath", "-o", os.path.join(d, m + "-norace"),
                        "./internal/zzverif/cmd/" + m], cwd=scratch, check=False)
                if p.returncode != 0:
                    raise Inconclusive("build of instrumented tree failed:\n" + p.stdout[-6000:])
            open(marker, "w").write("built in %.1fs\n" % (time.time() - t0))
            log("[build] instrumented tree built in %.1fs -> %s" % (time.time() - t0, d))
        finally:
            shutil.rmtree(scratch, ignore_errors=True)
        # keep the cache small
        try:
            ents = [os.path.join(CACHE, e) for e in os.listdir(CACHE) if e != "tools"]
            ents = [e for e in ents if os.path.isdir(e)]
            ents.sort(key=os.path.getmtime, reverse=True)
            # never remove an entry that may still be in use by another check running on another tree (a seeded
            # change in a scratch worktree, a background run): only entries untouched for six hours go
            for e in ents[6:]:
                if time.time() - os.path.getmtime(e) > 6 * 3600:
                    shutil.rmtree(e, ignore_errors=True)
        except OSError:
            pass
    return d


def sites(bdir):
    return {s["id"]: s for s in json.load(open(os.path.join(bdir, "sites.json")))}


def find_site(bdir, kind, func_sub, pos_sub=""):
    for s in json.load(open(os.path.join(bdir, "sites.json"))):
        if s["kind"] == kind and func_sub in s.get("func", "") and pos_sub in s["pos"]:
            return s["id"]
    return 0


class Worker:
    """One simharness worker process; jobs in over stdin, results back over an inherited pipe."""

    def __init__(self, binary, workdir, idx):
        self.binary, self.workdir, self.idx = binary, workdir, idx
        self.proc = None
        self.spawns = 0

    def start(self, extra_env=None):
        r, w = os.pipe()
        env = dict(GOENV)
        if extra_env:
            env.update(extra_env)
        self.racelog = os.path.join(self.workdir, "race-%d-%d" % (self.idx, self.spawns))
        env["GORACE"] = "log_path=%s halt_on_error=0 history_size=3 atexit_sleep_ms=0" % self.racelog
        self.errf = open(os.path.join(self.workdir, "stderr-%d" % self.idx), "ab")
        self.proc = subprocess.Popen([self.binary, "worker", "-out", "/dev/fd/%d" % w, "-work", self.workdir],
                                     stdin=subprocess.PIPE, stdout=subprocess.DEVNULL, stderr=self.errf,
                                     pass_fds=(w,), env=env, cwd=self.workdir)
        os.close(w)
        self.rfile = os.fdopen(r, "r", buffering=1, encoding="utf-8", errors="replace")
        self.spawns += 1

    def stop(self):
        if self.proc:
            try:
                self.proc.stdin.close()
            except OSError:
                pass
            try:
                self.proc.wait(timeout=5)
            except subprocess.TimeoutExpired:
                self.proc.kill()
                self.proc.wait()
            try:
                self.rfile.close()
            except OSError:
                pass
            self.errf.close()
            self.proc = None

    def run(self, job, timeout):
        """Returns the result dict. Worker death / timeouts are reported in the dict, never raised."""
        if self.proc is None or self.proc.poll() is not None or job.get("_env"):
            self.stop()
            self.start(job.get("_env"))
        timeout = job.get("_timeout", timeout)
        line = json.dumps({k: v for k, v in job.items() if not k.startswith("_")}) + "\n"
        result = {}

        def reader():
            try:
                while True:
                    l = self.rfile.readline()
                    if not l:
                        result["eof"] = True
                        return
                    o = json.loads(l)
                    if o.get("begin"):
                        continue
                    result["out"] = o
                    return
            except Exception as e:  # noqa
                result["eof"] = True
                result["exc"] = repr(e)

        t = threading.Thread(target=reader, daemon=True)
        t.start()
        try:
            self.proc.stdin.write(line.encode())
            self.proc.stdin.flush()
        except OSError:
            pass
        t.join(timeout)
        if t.is_alive():
            self.proc.kill()
            t.join(5)
            self.stop()
            return {"id": job["id"], "timeout": True}
        if "out" in result:
            o = result["out"]
            if (o.get("sim") or {}).get("aborted"):
                self.stop()
            return o
        # the process died without a result: hard crash (runtime throw, os.Exit in the analyser, ...)
        tail = ""
        try:
            self.proc.wait(timeout=5)
        except subprocess.TimeoutExpired:
            self.proc.kill()
        rc = self.proc.returncode
        try:
            with open(os.path.join(self.workdir, "stderr-%d" % self.idx), "rb") as f:
                f.seek(0, 2)
                n = f.tell()
                f.seek(max(0, n - 6000))
                tail = f.read().decode("utf-8", "replace")
        except OSError:
            pass
        race = ""
        try:
            for fn in os.listdir(self.workdir):
                if fn.startswith(os.path.basename(self.racelog)):
                    race += open(os.path.join(self.workdir, fn), errors="replace").read()
        except OSError:
            pass
        self.stop()
        return {"id": job["id"], "died": True, "exit": rc, "stderr": tail, "race": race}


def run_jobs(binary, jobs, timeout=180, nproc=None, progress=None, fresh=True):
    """Runs jobs on a pool of workers; returns results in job order. With fresh=True every job gets its own
    process, so that a run is a function of its job alone (the analyser keeps process-global counters whose
    values leak into node identifiers and hence into canonical map orders) and race reports, which the
    detector prints once per process, are attributed to the run that produced them."""
    nproc = nproc or NPROC
    workdir = tempfile.mkdtemp(prefix="verif-run-", dir=scratch_root())
    q = queue.Queue()
    for i, j in enumerate(jobs):
        q.put((i, j))
    results = [None] * len(jobs)
    done = [0]
    lock = threading.Lock()

    def loop(idx):
        w = Worker(binary, workdir, idx)
        try:
            while True:
                try:
                    i, j = q.get_nowait()
                except queue.Empty:
                    return
                results[i] = w.run(j, timeout)
                if fresh:
                    w.stop()
                with lock:
                    done[0] += 1
                    if progress and done[0] % progress == 0:
                        log("  ... %d/%d runs" % (done[0], len(jobs)))
        finally:
            w.stop()

    threads = [threading.Thread(target=loop, args=(i,), daemon=True) for i in range(min(nproc, max(1, len(jobs))))]
    try:
        for t in threads:
            t.start()
        for t in threads:
            t.join()
    finally:
        shutil.rmtree(workdir, ignore_errors=True)
    return results


def run_one(binary, job, timeout=300):
    return run_jobs(binary, [job], timeout=timeout, nproc=1)[0]


# ---------------------------------------------------------------- PRNG (pure function of the seed)

class Rng:
    """splitmix64: one integer decides everything."""

    def __init__(self, seed):
        self.x = (seed * 0x9E3779B97F4A7C15 + 0x1234567) & 0xFFFFFFFFFFFFFFFF

    def next(self):
        self.x = (self.x + 0x9E3779B97F4A7C15) & 0xFFFFFFFFFFFFFFFF
        z = self.x
        z = ((z ^ (z >> 30)) * 0xBF58476D1CE4E5B9) & 0xFFFFFFFFFFFFFFFF
        z = ((z ^ (z >> 27)) * 0x94D049BB133111EB) & 0xFFFFFFFFFFFFFFFF
        return z ^ (z >> 31)

    def below(self, n):
        return self.next() % n if n > 0 else 0

    def chance(self, pct):
        return self.below(100) < pct

    def pick(self, xs):
        return xs[self.below(len(xs))]

    def fork(self, tag):
        return Rng(self.next() ^ (hash_str(tag) & 0xFFFFFFFFFFFF))


def hash_str(s):
    return int.from_bytes(hashlib.sha256(s.encode()).digest()[:8], "big")


def make_tape(rng, n, style):
    """style: 'zero' | 'uniform' | 'sticky' | 'sparse'"""
    if style == "zero":
        return []
    if style == "uniform":
        return [rng.next() & 0xFFFFFFFF for _ in range(n)]
    if style == "sticky":
        return [(rng.next() & 0xFFFFFFFF) if rng.chance(15) else 0 for _ in range(n)]
    if style == "sparse":
        return [(rng.next() & 0xFFFFFFFF) if rng.chance(3) else 0 for _ in range(n)]
    raise ValueError(style)


def trim_tape(tape):
    t = list(tape)
    while t and t[-1] == 0:
        t.pop()
    return t


# ---------------------------------------------------------------- findings, replays, evidence

def known_findings():
    path = os.path.join(VERIF, "known_findings.jsonl")
    out = []
    if os.path.exists(path):
        for l in open(path):
            l = l.strip()
            if l and not l.startswith("#"):
                out.append(json.loads(l))
    return out


def _user_frame(block):
    """First frame of a stack block that is neither runtime, simulator nor harness."""
    import re
    lines = block.split("\n")
    for i, ln in enumerate(lines):
        m = re.match(r"\s+(\S+\.go):(\d+)", ln)
        if not m:
            continue
        f = m.group(1)
        if f.startswith("runtime/") or "/src/runtime/" in f or "/usr/lib/go" in f or "zzverif/" in f \
                or f.startswith("simrt/") or "/simrt/" in f or f.startswith("sync/") or f.startswith("internal/race"):
            continue
        f = re.sub(r"^.*?((?:analysis|internal|cmd)/)", r"\1", f) if "ar-go-tools" in f else f
        return "%s:%s" % (f, m.group(2))
    return None


def race_reports(text):
    """Parses race detector output into [{'frames': [a, b], 'creators': [ca, cb]}]."""
    import re
    out = []
    for rep in text.split("WARNING: DATA RACE")[1:]:
        rep = rep.split("==================")[0]
        blocks = [b for b in re.split(r"\n\s*\n", rep) if b.strip()]
        acc, creators = [], {}
        for b in blocks:
            head = b.strip().split("\n")[0]
            m = re.match(r"(?:Previous )?(?:[Rr]ead|[Ww]rite|atomic \w+) at \S+ by (main goroutine|goroutine (\d+))", head)
            if m:
                acc.append((m.group(2) or "main", _user_frame(b) or "?"))
                continue
            m = re.match(r"Goroutine (\d+) \(\w+\) created at", head)
            if m:
                creators[m.group(1)] = _user_frame(b) or "simulation-main"
        frames = sorted(a[1] for a in acc[:2])
        cr = sorted(creators.get(a[0], "simulation-main") for a in acc[:2])
        out.append({"frames": frames, "creators": cr})
    return out


def race_signature(text):
    """Canonical signatures of race reports: the goroutines involved (by creation site) and both access sites."""
    sigs = set()
    for r in race_reports(text):
        sigs.add("goroutines[%s] at %s" % (" | ".join(r["creators"]), " / ".join(r["frames"])))
    return sorted(sigs)


def write_replay(prop, name, payload):
    d = os.environ.get("VERIF_REPLAY_DIR") or os.path.join(VERIF, "replays")
    os.makedirs(d, exist_ok=True)
    path = os.path.join(d, "%s-%s.json" % (prop, name))
    with open(path, "w") as f:
        json.dump(payload, f, indent=1, sort_keys=True)
    return path


def write_evidence(prop, tier, seed, coverage, wall, violations, assumptions, extra=None):
    ev = {"property_id": prop, "tier": tier, "seed": int(seed), "level": "exploration",
          "coverage": coverage, "assumptions": assumptions, "wall_s": round(wall, 2), "violations": int(violations)}
    if extra:
        ev.update(extra)
    d = os.environ.get("VERIF_EVIDENCE_DIR") or os.path.join(VERIF, "evidence")
    os.makedirs(d, exist_ok=True)
    with open(os.path.join(d, prop + ".json"), "w") as f:
        json.dump(ev, f, indent=1, sort_keys=True)


REAL = ["every line of analysis/... and internal/... except internal/pointer (instrumented copy of /repo's working tree)",
        "internal/pointer, golang.org/x/tools (ssa, go/packages), Go runtime channels/mutexes/maps, race detector"]
STUB = ["goroutine scheduling (simrt tape)", "map iteration order (simrt.RangeMap)", "runtime.NumCPU (run parameter)",
        "time.Now/Since (logical clock, 1us per scheduling step)"]


class Report:
    """Collects violations / known findings of one check and produces the exit status."""

    def __init__(self, prop):
        self.prop = prop
        self.known = [k for k in known_findings() if k.get("property") == prop and k.get("status", "known") == "known"]
        self.violations = []  # (signature, replay path)
        self.known_hit = {}
        self.inconclusive = []

    def match_known(self, signature):
        for k in self.known:
            if k["signature"] == signature or (k.get("prefix") and signature.startswith(k["signature"])):
                return k
        return None

    def violation(self, signature, replay_payload, name):
        k = self.match_known(signature)
        if k is not None:
            self.known_hit.setdefault(k["signature"], [0, k])[0] += 1
            return None
        for s, p in self.violations:
            if s == signature:
                return p
        path = write_replay(self.prop, name, replay_payload)
        self.violations.append((signature, path))
        return path

    def finish(self):
        for sig, (n, k) in sorted(self.known_hit.items()):
            print("KNOWN-FINDING: property=%s %s (%d runs) -- %s" % (self.prop, sig, n, k.get("what", "")))
        for sig, path in self.violations:
            print("VIOLATION property=%s replay=%s" % (self.prop, path))
            print("  signature: " + sig)
        if self.violations:
            return 1
        if self.inconclusive:
            for m in self.inconclusive[:10]:
                log("INCONCLUSIVE: " + m)
            return 2
        return 0
