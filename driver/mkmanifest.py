#!/usr/bin/env python3
"""Writes MANIFEST.json from the table below (kept in one place so that it always validates)."""
import json
import os

V = os.path.dirname(os.path.dirname(os.path.abspath(__file__)))

NA = {
 "C01": "pure function of (sequential program, configuration); the fragment excludes goroutines, so no schedule, clock, fault or interleaving exists on either side. Analyser-side flicker of a C01 verdict is C06.",
 "C02": "pure: branch outcomes, including validator results, are inputs of a sequential program, not schedules or faults.",
 "C03": "pure function of (sequential program, configuration) for the backward traversal; order-independence of backtrace results is covered under C06.",
 "C04": "pure: a conjunction of regular-expression matches over call forms; nothing temporal to simulate.",
 "C07": "quantifies over programs and configurations; the analyses after the summary pass are single-threaded and have no timers. The temporal part that exists (the analyser's goroutines must not deadlock or be left behind) is C20; schedule-dependent crashes are reported by C06.",
 "C08": "per-function comparison of two pure relations; no schedule, clock or fault.",
 "C09": "pure table conformance over ~450 entries; the natural decision procedure is exhaustive enumeration, which is not this technique.",
 "C10": "pure; exhaustive enumeration of 0/1 specification matrices is not this technique.",
 "C11": "the pointer solver is single-threaded and deterministic; the quantifier is programs x inputs with no schedule. Logging aliases of generated programs would be input generation in simulator vocabulary.",
 "C12": "same as C11 for call events: no schedule, clock or fault in the quantifier.",
 "C16": "pure function of one CFG; deciding exactness needs path enumeration (explicit-state model checking), which this task excludes.",
 "C18": "pure function of the program and two flags.",
}

CHECKS = {
 "C13": dict(
    technique="deterministic simulation: generated concurrent programs executed natively under the seeded scheduler with value-level taint sentinels; the analyser's flows and escapes on the clean text are the claim",
    text="Seeded search over programs and schedules (statement-granularity yields, stalls, priority schedules). Every (source line, sink line) pair whose token reaches a sink in some execution must be reported as a flow, or its source must be reported as escaping; a miss while taint.Analyze returns an error is not silent and is bucketed separately.",
    note="Observation can only under-report (tokens captured in closures or in flight in channels are not visible). Programs are import-free; sharing through go arguments, captured variables, globals, fields, channels of pointers, maps, slices, interface values.",
    ref="4/C13"),
 "C14": dict(
    technique="deterministic simulation: the same generated programs under the seeded scheduler with a race detector that cannot see the scheduler, plus an access log; lines the escape analysis claims thread-local in every context are the claim",
    text="Seeded search. A violation is a race report whose later access is at a line claimed local, or a logged access at such a line to an object that another live goroutine accesses both before and after it. Both oracles can only under-report.",
    note="A line is claimed local iff every memory-accessing SSA instruction on it is local in every context of the walk used by the repository's own locality test (arbitrary context for main and go callees, call-site contexts below). Walks cut off by the budget make no claims. When the claimed-local access is the earlier one of a race pair it is not counted (the object may have been published later).",
    ref="4/C14"),
 "C15": dict(
    technique="deterministic simulation of the escape analysis as a work-queue system: block and function queues and every map iteration behind a seeded pick seam (hooks, tag verif); laws and monotonicity evaluated on the graphs the runs reach",
    text="Seeded search over processing orders: set of summarised functions, renumbering-invariant hash of every summary and locality verdict of every instruction must equal those of the calm order; after convergence re-processing any block must change nothing. Riding on the runs: idempotence, commutativity, associativity, upper bound on block-end/initial graphs and seeded weakenings; monotonicity of single transfer steps and of call-summary instantiation under weakened inputs; the built-in per-instruction self-check switched on as a collector.",
    note="The hash can miss a difference, never invent one. Laws/monotonicity are property-based checks on reached states, not schedule search; evidence counts them separately.",
    ref="4/C15"),
 "C19": dict(
    technique="deterministic simulation with fault injection: every go form x defer form generated, panics injected at seeded points inside goroutines under seeded schedules; the may-panic report is the claim",
    text="For every run in which an injected panic reaches the top of a goroutine (observed by the simulator's outermost frame of that task), the go statement that created it must be a creation site in the may-panic JSON report. The generator's beliefs about which defer forms recover are checked against the executions (mismatch = exit 2).",
    note="The first sentence of C19 is syntactic; simulation supplies the execution-level ground truth. Findings are matched by creation-site line.",
    ref="4/C19"),
 "C05": dict(
    technique="deterministic simulation: option sets that add goroutines/files/log traffic compared under seeded adversarial schedules and map orders; on-demand/pkg-filter/max-alarms variants ride along as a cross-run oracle",
    text="Seeded search, not proof. For each generated program the verdict (set of source->sink position pairs) of the base configuration under the zero tape is compared with the verdict under every listed option set run with swarm-drawn schedules, worker counts and map orders. max-alarms=k: subset, at most k, non-empty iff the unlimited result is. Only report-*/log-level have a temporal dimension; summarize-on-demand, pkg-filter and max-alarms are a differential comparison executed inside the simulator and are counted separately (sim_decided / ride_along / max_alarms in the evidence).",
    note="Generated programs are import-free; half of them have a second package (m/lib) so that pkg-filter excludes something, plus a family of closure-factory programs. Trusts simrt's primitive models. Built without the race detector (results only).",
    ref="4/C05"),
 "C06": dict(
    technique="deterministic simulation: seeded scheduler for init steps and summary workers, worker count and every map iteration order in analysis/... and internal/... behind a seam; verdict compared with the zero-tape reference run",
    text="Seeded search over schedules, worker counts (NumCPU 1..17) and map iteration orders (338 range sites routed to simrt.RangeMap). Oracle: flows, escapes, backtrace endpoints and error status equal those of the reference run (zero tape: one worker, run-to-block schedule, canonical map order) of the same program and configuration; a crash that only some tape produces is a violation. Every run is its own process, so a run is a pure function of its job and replays exactly.",
    note="Keys whose canonical descriptions tie (distinct *ssa.Const with equal value) keep native relative order; counted in the evidence. internal/pointer's own map iterations are not permuted. One recorded known finding (use-escape-analysis escape contexts) is matched by a narrow signature.",
    ref="4/C06"),
 "C17": dict(
    technique="deterministic simulation as an invariant monitor: bidirectional-consistency invariants evaluated on the graph every simulated run returns",
    text="Invariant monitor riding on the simulated runs (eager, on-demand, escape, backtrace variants under swarm schedules/orders): out-edge <=> in-edge with matching tuple index, call node <=> callee-summary call sites, closure node <=> referring closures, GlobalNode read/write sets == access nodes of constructed summaries. Only the global sets are filled concurrently (counted as schedule_sensitive_checks); the rest is structural.",
    note="Evaluated when the analysis returns, not between individual on-demand builds. For several out-edges with distinct tuple indices to one target the in-side keeps a single EdgeInfo by design of the data structure; the monitor requires that index to be one of the out indices.",
    ref="4/C17"),
 "C20": dict(
    technique="deterministic simulation: seeded scheduler over the analyser's goroutines with a race-detector-transparent baton; stall and worker-count faults",
    text="Seeded schedule search, not proof. The real analyser (instrumented copy of the working tree, -race) runs under simrt: every go/chan/WaitGroup/Mutex/atomic operation, map iteration, NumCPU and clock read is a simulator decision drawn from one tape. Oracles: no race report (the detector cannot see the scheduler), no deadlock, no goroutine alive when Analyze returns, summaries report complete at return, MapParallel == Map with every element processed once. Ids drawn from the shared id counter must be pairwise distinct among the summaries of the final graph (lost updates are invisible to the race detector).",
    note="Trusts the race detector's happens-before model and simrt's enabledness models of unbuffered/buffered channels, WaitGroup, Mutex, Once. internal/pointer and x/tools run uninstrumented (their internal locks are never held across a scheduling point). Generated programs are import-free; std-importing corpus programs only in the thorough tier.",
    ref="4/C20, 2"),
}

m = {
 "version": 1,
 "setup_cmd": "bin/check --setup",
 "hooks": {"guard": "verif", "enable": "checks copy /repo's working tree to a scratch directory, instrument it with /verif/simrewrite and build with `go build -race -tags verif`", "baseline_off_cmd": "cd /repo && GOFLAGS=-mod=mod go test -json -vet=off -count=1 -timeout 25m ./...", "source_commits": ["a3bf724", "4229e13", "dcdefcd", "18d7ec3", "e2c8cc0"], "add_only": True},
 "engines": [
   {"name": "simrt", "path": "simrt", "serves_properties": sorted(CHECKS), "kind_free_text": "deterministic scheduler runtime (Go): tasks, tape, channel/WaitGroup/Mutex models, RangeMap, logical clock; baton invisible to the race detector"},
   {"name": "simrewrite", "path": "simrewrite", "serves_properties": sorted(CHECKS), "kind_free_text": "type-directed source instrumenter applied to a scratch copy of /repo"},
   {"name": "driver", "path": "driver", "serves_properties": sorted(CHECKS), "kind_free_text": "Python: build cache, worker pool, generators, oracles, minimiser, evidence"},
 ],
 "checks": [],
 "not_applicable": [{"property_id": k, "reason": v} for k, v in sorted(NA.items())],
 "notes": "Technique family: deterministic simulation with fault injection. Exit 0 held / 1 VIOLATION / 2 inconclusive (build trouble, unsupported construct, budget). See DESIGN.md.",
}
for pid in sorted(CHECKS):
    c = CHECKS[pid]
    m["checks"].append({
        "property_id": pid,
        "quick_cmd": "bin/check %s --tier quick" % pid,
        "thorough_cmd": "bin/check %s --tier thorough" % pid,
        "evidence_file": "evidence/%s.json" % pid,
        "replay_cmd_template": "bin/check %s --replay {path}" % pid,
        "engine": "simrt",
        "level_claimed": {"category": "exploration", "text": c["text"], "design_ref": c["ref"]},
        "level_note": c["note"],
        "technique": c["technique"],
    })
claimed = set(CHECKS)
allp = [json.loads(l)["id"] for l in open(os.path.join(V, "properties.jsonl"))]
for p in allp:
    if p not in claimed and p not in NA:
        m["not_applicable"].append({"property_id": p, "reason": "claimed in DESIGN.md; check not built yet in this revision"})
m["not_applicable"].sort(key=lambda x: x["property_id"])
json.dump(m, open(os.path.join(V, "MANIFEST.json"), "w"), indent=1)
