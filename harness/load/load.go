// Package load loads programs for the harness: import-free single-file programs without running `go list`,
// anything else through the analyser's own loader.
package load

import (
	"fmt"
	"go/ast"
	"go/parser"
	"go/token"
	"go/types"
	"os"
	"path/filepath"
	"sort"

	"github.com/awslabs/ar-go-tools/analysis"
	"golang.org/x/tools/go/packages"
	"golang.org/x/tools/go/ssa"
	"golang.org/x/tools/go/ssa/ssautil"
)

// Mode is the SSA builder mode the analyser's command line uses.
const Mode = ssa.InstantiateGenerics

// Source loads an import-free program from source text (file name -> text).
func Source(files map[string]string) (*ssa.Program, []*packages.Package, error) {
	fset := token.NewFileSet()
	var names []string
	for n := range files {
		names = append(names, n)
	}
	sort.Strings(names)
	var syntax []*ast.File
	for _, n := range names {
		f, err := parser.ParseFile(fset, n, files[n], parser.ParseComments|parser.SkipObjectResolution)
		if err != nil {
			return nil, nil, err
		}
		if len(f.Imports) > 0 {
			return nil, nil, fmt.Errorf("load.Source: program has imports")
		}
		syntax = append(syntax, f)
	}
	info := &types.Info{
		Types:      map[ast.Expr]types.TypeAndValue{},
		Defs:       map[*ast.Ident]types.Object{},
		Uses:       map[*ast.Ident]types.Object{},
		Implicits:  map[ast.Node]types.Object{},
		Instances:  map[*ast.Ident]types.Instance{},
		Scopes:     map[ast.Node]*types.Scope{},
		Selections: map[*ast.SelectorExpr]*types.Selection{},
	}
	conf := types.Config{GoVersion: "go1.22", Sizes: types.SizesFor("gc", "amd64")}
	tpkg, err := conf.Check("command-line-arguments", fset, syntax, info)
	if err != nil {
		return nil, nil, err
	}
	tpkg.SetName("main")
	pkg := &packages.Package{
		ID: "command-line-arguments", Name: "main", PkgPath: "command-line-arguments",
		GoFiles: names, CompiledGoFiles: names, Imports: map[string]*packages.Package{},
		Types: tpkg, Fset: fset, Syntax: syntax, TypesInfo: info, TypesSizes: conf.Sizes,
	}
	pkgs := []*packages.Package{pkg}
	prog, spkgs := ssautil.AllPackages(pkgs, Mode)
	for _, p := range spkgs {
		if p == nil {
			return nil, nil, fmt.Errorf("load.Source: cannot build SSA")
		}
	}
	prog.Build()
	return prog, pkgs, nil
}

// Dir loads the main package in dir (or the listed files) through the analyser's loader.
func Dir(dir string, files []string) (*ssa.Program, []*packages.Package, error) {
	old, err := os.Getwd()
	if err != nil {
		return nil, nil, err
	}
	if err := os.Chdir(dir); err != nil {
		return nil, nil, err
	}
	defer os.Chdir(old)
	args := files
	if len(args) == 0 {
		ms, _ := filepath.Glob("*.go")
		for _, m := range ms {
			if len(m) > 8 && m[len(m)-8:] == "_test.go" {
				continue
			}
			args = append(args, m)
		}
		sort.Strings(args)
	}
	return analysis.LoadProgram(analysis.LoadProgramOptions{BuildMode: Mode, LoadTests: false, ApplyRewrites: true}, args)
}
