// Package load loads programs for the harness: import-free single-file programs without running `go list`,
// anything else through the analyser's own loader.
package load

import (
	"fmt"
	"go/ast"
	"go/parser"
	"go/token"
	"go/types"
	"os"
	"path/filepath"
	"sort"

	"github.com/awslabs/ar-go-tools/analysis"
	"golang.org/x/tools/go/packages"
	"golang.org/x/tools/go/ssa"
	"golang.org/x/tools/go/ssa/ssautil"
)

// Mode is the SSA builder mode the analyser's command line uses.
const Mode = ssa.InstantiateGenerics

// Source loads a program from source text (file name -> text) without running `go list`. Files in the root
// directory form the main package ("command-line-arguments"); files in a subdirectory d form the package with import
// path "m/d", which the other packages may import. No other imports are allowed.
func Source(files map[string]string) (*ssa.Program, []*packages.Package, error) {
	fset := token.NewFileSet()
	byDir := map[string][]string{}
	for n := range files {
		d := filepath.Dir(n)
		if d == "." {
			d = ""
		}
		byDir[d] = append(byDir[d], n)
	}
	var dirs []string
	for d := range byDir {
		dirs = append(dirs, d)
	}
	// library packages first (they may not import each other in a cycle; one level is what the generators use),
	// the main package last
	sort.Slice(dirs, func(i, j int) bool {
		if (dirs[i] == "") != (dirs[j] == "") {
			return dirs[j] == ""
		}
		return dirs[i] < dirs[j]
	})
	typed := map[string]*types.Package{}
	loaded := map[string]*packages.Package{}
	imp := importerFunc(func(path string) (*types.Package, error) {
		if p, ok := typed[path]; ok {
			return p, nil
		}
		return nil, fmt.Errorf("load.Source: import %q is not part of the program", path)
	})
	var mainPkg *packages.Package
	var all []*packages.Package
	for _, d := range dirs {
		names := byDir[d]
		sort.Strings(names)
		var syntax []*ast.File
		for _, n := range names {
			f, err := parser.ParseFile(fset, n, files[n], parser.ParseComments|parser.SkipObjectResolution)
			if err != nil {
				return nil, nil, err
			}
			syntax = append(syntax, f)
		}
		info := &types.Info{
			Types:      map[ast.Expr]types.TypeAndValue{},
			Defs:       map[*ast.Ident]types.Object{},
			Uses:       map[*ast.Ident]types.Object{},
			Implicits:  map[ast.Node]types.Object{},
			Instances:  map[*ast.Ident]types.Instance{},
			Scopes:     map[ast.Node]*types.Scope{},
			Selections: map[*ast.SelectorExpr]*types.Selection{},
		}
		path := "command-line-arguments"
		if d != "" {
			path = "m/" + filepath.ToSlash(d)
		}
		conf := types.Config{GoVersion: "go1.22", Sizes: types.SizesFor("gc", "amd64"), Importer: imp}
		tpkg, err := conf.Check(path, fset, syntax, info)
		if err != nil {
			return nil, nil, err
		}
		typed[path] = tpkg
		pkg := &packages.Package{
			ID: path, Name: tpkg.Name(), PkgPath: path,
			GoFiles: names, CompiledGoFiles: names, Imports: map[string]*packages.Package{},
			Types: tpkg, Fset: fset, Syntax: syntax, TypesInfo: info, TypesSizes: conf.Sizes,
		}
		for _, ip := range tpkg.Imports() {
			pkg.Imports[ip.Path()] = loaded[ip.Path()]
		}
		loaded[path] = pkg
		all = append(all, pkg)
		if d == "" {
			mainPkg = pkg
		}
	}
	if mainPkg == nil {
		return nil, nil, fmt.Errorf("load.Source: no main package")
	}
	pkgs := []*packages.Package{mainPkg}
	prog, spkgs := ssautil.AllPackages(pkgs, Mode)
	for _, p := range spkgs {
		if p == nil {
			return nil, nil, fmt.Errorf("load.Source: cannot build SSA")
		}
	}
	prog.Build()
	return prog, pkgs, nil
}

type importerFunc func(path string) (*types.Package, error)

func (f importerFunc) Import(path string) (*types.Package, error) { return f(path) }

// Dir loads the main package in dir (or the listed files) through the analyser's loader.
func Dir(dir string, files []string) (*ssa.Program, []*packages.Package, error) {
	old, err := os.Getwd()
	if err != nil {
		return nil, nil, err
	}
	if err := os.Chdir(dir); err != nil {
		return nil, nil, err
	}
	defer os.Chdir(old)
	args := files
	if len(args) == 0 {
		ms, _ := filepath.Glob("*.go")
		for _, m := range ms {
			if len(m) > 8 && m[len(m)-8:] == "_test.go" {
				continue
			}
			args = append(args, m)
		}
		sort.Strings(args)
	}
	return analysis.LoadProgram(analysis.LoadProgramOptions{BuildMode: Mode, LoadTests: false, ApplyRewrites: true}, args)
}
