package main

import (
	"fmt"
	"os"
	"path/filepath"
	"runtime/debug"
	"sort"
	"time"

	"github.com/awslabs/ar-go-tools/analysis/config"
	"github.com/awslabs/ar-go-tools/analysis/dataflow"
	"github.com/awslabs/ar-go-tools/analysis/escape"
	"github.com/awslabs/ar-go-tools/internal/zzverif/harness/load"
	"github.com/awslabs/ar-go-tools/internal/zzverif/simrt"
	"golang.org/x/tools/go/packages"
	"golang.org/x/tools/go/ssa"
)

// EscapeOut is the outcome of an escape-analysis job (C15; static side of C14).
type EscapeOut struct {
	Summarized []string          `json:"summarized"`
	Overflow   []string          `json:"overflow,omitempty"`
	Hashes     map[string]string `json:"hashes"`   // function -> renumbering-invariant hash of the summary
	Locality   map[string]string `json:"locality"` // "file:line:col|instr index path" -> L (local in every context) or N
	Lines      map[string]string `json:"lines"`    // "line" -> L / N / M(ixed) over memory-accessing instructions
	NotFixed   []string          `json:"not_fixpoint,omitempty"`
	Mono       []string          `json:"monotonicity,omitempty"`
	Laws       []string          `json:"laws,omitempty"`
	Counts     map[string]int    `json:"counts"`
	Contexts   int               `json:"contexts"`
	// Truncated: the context walk was cut off; the locality verdicts are incomplete and must not be used as claims.
	Truncated bool `json:"walk_truncated,omitempty"`
	Err        string            `json:"err,omitempty"`
	Millis     map[string]int64  `json:"millis,omitempty"`
}

const maxContexts = 300

type lawRng struct{ x uint64 }

func (r *lawRng) below(n int) int {
	r.x += 0x9e3779b97f4a7c15
	z := r.x
	z = (z ^ (z >> 30)) * 0xbf58476d1ce4e5b9
	z = (z ^ (z >> 27)) * 0x94d049bb133111eb
	z ^= z >> 31
	if n <= 0 {
		return 0
	}
	return int(z % uint64(n))
}

func instrKey(prog *ssa.Program, i ssa.Instruction) string {
	b := i.Block()
	idx := -1
	if b != nil {
		for k, x := range b.Instrs {
			if x == i {
				idx = k
			}
		}
	}
	p := prog.Fset.Position(i.Pos())
	bi := -1
	if b != nil {
		bi = b.Index
	}
	return fmt.Sprintf("%s|%s:%d:%d|b%d.%d", i.Parent().String(), filepath.Base(p.Filename), p.Line, p.Column, bi, idx)
}

// memoryAccess reports whether the instruction reads or writes memory that could be shared.
func memoryAccess(i ssa.Instruction) bool {
	switch x := i.(type) {
	case *ssa.Store, *ssa.MapUpdate, *ssa.Send, *ssa.Lookup, *ssa.Range, *ssa.Next, *ssa.Index:
		return true
	case *ssa.UnOp:
		return x.Op.String() == "*" || x.Op.String() == "<-"
	case *ssa.Call:
		if b, ok := x.Call.Value.(*ssa.Builtin); ok {
			switch b.Name() {
			case "append", "copy", "delete", "len", "cap", "close":
				return true
			}
		}
	}
	return false
}

func checkLaws(out *EscapeOut, prog *escape.ProgramAnalysisState, rng *lawRng, maxPerFunc int) {
	add := func(format string, a ...any) {
		if len(out.Laws) < 50 {
			out.Laws = append(out.Laws, fmt.Sprintf(format, a...))
		}
	}
	merged := func(a, b *escape.EscapeGraph) *escape.EscapeGraph {
		c := a.Clone()
		c.Merge(b)
		return c
	}
	for _, f := range escape.VerifSummarized(prog) {
		if escape.VerifOverflow(prog, f) {
			continue
		}
		var gs []*escape.EscapeGraph
		for _, g := range escape.VerifBlockGraphs(prog, f) {
			if g != nil {
				gs = append(gs, g)
			}
		}
		if ig := escape.VerifInitialGraph(prog, f); ig != nil {
			gs = append(gs, ig)
		}
		if len(gs) == 0 {
			continue
		}
		// seeded weakenings, re-closed by construction
		n0 := len(gs)
		for k := 0; k < 3 && k < n0; k++ {
			gs = append(gs, escape.VerifWeaken(gs[rng.below(n0)], rng.below))
		}
		for t := 0; t < maxPerFunc; t++ {
			a, b, c := gs[rng.below(len(gs))], gs[rng.below(len(gs))], gs[rng.below(len(gs))]
			out.Counts["law_instances"]++
			if !merged(a, a).Matches(a) {
				// a graph that arose in the analysis is closed; a join with itself must not change it
				add("idempotence: g join g != g in %s", f.String())
			}
			ab, ba := merged(a, b), merged(b, a)
			if !ab.Matches(ba) {
				add("commutativity: a join b != b join a in %s", f.String())
			}
			if !merged(ab, c).Matches(merged(a, merged(b, c))) {
				add("associativity: (a join b) join c != a join (b join c) in %s", f.String())
			}
			if le, why := a.LessEqual(ab); !le {
				add("upper bound: a is not <= a join b in %s (%s)", f.String(), why)
			}
			if le, why := b.LessEqual(ab); !le {
				add("upper bound: b is not <= a join b in %s (%s)", f.String(), why)
			}
		}
	}
}

func checkActiveMonotonicity(out *EscapeOut, prog *escape.ProgramAnalysisState, rng *lawRng, perFunc int) {
	add := func(format string, a ...any) {
		if len(out.Mono) < 50 {
			out.Mono = append(out.Mono, fmt.Sprintf(format, a...))
		}
	}
	summarized := escape.VerifSummarized(prog)
	for _, f := range summarized {
		if escape.VerifOverflow(prog, f) || len(f.Blocks) == 0 {
			continue
		}
		graphs := escape.VerifBlockGraphs(prog, f)
		for t := 0; t < perFunc; t++ {
			b := f.Blocks[rng.below(len(f.Blocks))]
			if graphs[b.Index] == nil || len(b.Instrs) == 0 {
				continue
			}
			pre := escape.VerifBlockInput(prog, f, b)
			stop := rng.below(len(b.Instrs))
			for k := 0; k < stop; k++ {
				pre = escape.VerifTransfer(prog, f, b.Instrs[k], pre)
			}
			instr := b.Instrs[stop]
			weak := escape.VerifWeaken(pre, rng.below)
			if le, _ := weak.LessEqual(pre); !le {
				out.Counts["weakening_not_below"]++
				continue
			}
			post := escape.VerifTransfer(prog, f, instr, pre)
			wpost := escape.VerifTransfer(prog, f, instr, weak)
			out.Counts["mono_instances"]++
			if le, why := wpost.LessEqual(post); !le {
				add("transfer not monotone at %T in %s: smaller input gave an output that is not smaller (%s)", instr, f.String(), why)
			}
			// summary instantiation: a weakened callee summary must not give a larger caller graph
			if call, ok := instr.(*ssa.Call); ok {
				if callee := call.Call.StaticCallee(); callee != nil {
					if fg := escape.VerifFinalGraph(prog, callee); fg != nil && !escape.VerifOverflow(prog, callee) {
						isSum := false
						for _, s := range summarized {
							if s == callee {
								isSum = true
							}
						}
						if isSum {
							wsum := escape.VerifWeaken(fg, rng.below)
							if le, _ := wsum.LessEqual(fg); le {
								old := escape.VerifSwapFinalGraph(prog, callee, wsum)
								wpost2 := escape.VerifTransfer(prog, f, instr, pre)
								escape.VerifSwapFinalGraph(prog, callee, old)
								out.Counts["mono_call_instances"]++
								if le2, why := wpost2.LessEqual(post); !le2 {
									add("summary instantiation not monotone at call to %s in %s (%s)", callee.String(), f.String(), why)
								}
							}
						}
					}
				}
			}
		}
	}
}

// localityWalk mirrors the context walk of the repository's own locality test: arbitrary context for each
// root, call-site contexts for callees, merged until stable.
func localityWalk(out *EscapeOut, state *dataflow.AnalyzerState, st dataflow.EscapeAnalysisState, prog *ssa.Program, roots []*ssa.Function) {
	walkStart := time.Now()
	verdict := map[ssa.Instruction]bool{} // true = local in every context so far
	seen := map[ssa.Instruction]bool{}
	type node struct {
		ctx dataflow.EscapeCallContext
	}
	for _, root := range roots {
		if !st.IsSummarized(root) {
			continue
		}
		current := map[*ssa.Function]*node{}
		depth := 0
		var analyze func(f *ssa.Function, ctx dataflow.EscapeCallContext)
		analyze = func(f *ssa.Function, ctx dataflow.EscapeCallContext) {
			depth++
			defer func() { depth-- }()
			if depth > 60 {
				return
			}
			var n *node
			added := false
			if c, ok := current[f]; !ok {
				n = &node{ctx}
				current[f] = n
				added = true
			} else {
				n = c
				changed, merged := n.ctx.Merge(ctx)
				if !changed {
					return
				}
				n.ctx = merged
			}
			out.Contexts++
			if out.Contexts > maxContexts || time.Since(walkStart) > 15*time.Second {
				// recursive programs can make this walk arbitrarily long; a truncated walk makes no claims
				out.Truncated = true
				return
			}
			locality, callsites := st.ComputeInstructionLocalityAndCallsites(f, n.ctx)
			for instr, rat := range locality {
				if !seen[instr] {
					seen[instr] = true
					verdict[instr] = true
				}
				if rat != nil {
					verdict[instr] = false
				}
			}
			// deterministic order of call sites
			var calls []*ssa.Call
			for c := range callsites {
				calls = append(calls, c)
			}
			sort.Slice(calls, func(i, j int) bool { return instrKey(prog, calls[i]) < instrKey(prog, calls[j]) })
			for _, cs := range calls {
				callees, _ := state.ResolveCallee(cs, true)
				var cl []*ssa.Function
				for c := range callees {
					cl = append(cl, c)
				}
				sort.Slice(cl, func(i, j int) bool { return cl[i].String() < cl[j].String() })
				for _, callee := range cl {
					if st.IsSummarized(callee) {
						analyze(callee, callsites[cs].Resolve(callee))
					}
				}
			}
			if added {
				delete(current, f)
			}
		}
		analyze(root, st.ComputeArbitraryContext(root))
	}
	lineAll := map[string][2]int{}
	for instr, local := range verdict {
		v := "N"
		if local {
			v = "L"
		}
		out.Locality[instrKey(prog, instr)] = v
		if memoryAccess(instr) {
			p := prog.Fset.Position(instr.Pos())
			if p.IsValid() {
				k := fmt.Sprintf("%d", p.Line)
				c := lineAll[k]
				if local {
					c[0]++
				} else {
					c[1]++
				}
				lineAll[k] = c
			}
		}
	}
	for k, c := range lineAll {
		switch {
		case c[1] == 0:
			out.Lines[k] = "L"
		case c[0] == 0:
			out.Lines[k] = "N"
		default:
			out.Lines[k] = "M"
		}
	}
}

func goRoots(prog *ssa.Program, state *dataflow.AnalyzerState) []*ssa.Function {
	set := map[*ssa.Function]bool{}
	for f := range state.ReachableFunctions() {
		if f.Name() == "main" && f.Pkg != nil && f.Pkg.Pkg.Name() == "main" {
			set[f] = true
		}
		for _, b := range f.Blocks {
			for _, i := range b.Instrs {
				if g, ok := i.(*ssa.Go); ok {
					callees, _ := state.ResolveCallee(g, true)
					for c := range callees {
						set[c] = true
					}
				}
			}
		}
	}
	var out []*ssa.Function
	for f := range set {
		out = append(out, f)
	}
	sort.Slice(out, func(i, j int) bool { return out[i].String() < out[j].String() })
	return out
}

func runEscape(j *Job, out *Out, workDir string) {
	reportsDir := filepath.Join(workDir, fmt.Sprintf("reports-%d-%d", os.Getpid(), j.ID))
	_ = os.MkdirAll(reportsDir, 0o755)
	defer os.RemoveAll(reportsDir)
	cfg, err := loadConfig(j, reportsDir)
	if err != nil {
		out.LoadErr = "config: " + err.Error()
		return
	}
	var prog *ssa.Program
	var pkgs []*packages.Package
	if len(j.Files) > 0 {
		prog, pkgs, err = load.Source(j.Files)
	} else {
		prog, pkgs, err = load.Dir(j.Dir, j.DirFiles)
	}
	if err != nil {
		out.LoadErr = "load: " + err.Error()
		return
	}
	eo := &EscapeOut{Hashes: map[string]string{}, Locality: map[string]string{}, Lines: map[string]string{}, Counts: map[string]int{}, Millis: map[string]int64{}}
	out.Escape = eo
	var pv any
	var pstack string
	mono := map[string]bool{}
	sim := simrt.Run(j.Params, func() {
		defer func() {
			if r := recover(); r != nil {
				pv = r
				pstack = string(debug.Stack())
			}
		}()
		t0 := time.Now()
		lap := func(name string) {
			eo.Millis[name] = time.Since(t0).Milliseconds()
			t0 = time.Now()
		}
		state, err := dataflow.NewInitializedAnalyzerState(prog, pkgs, config.NewLogGroup(cfg), cfg)
		lap("init")
		if err != nil {
			eo.Err = err.Error()
			return
		}
		escape.VerifPick = func(kind int, n int, def int) int {
			if kind == 1 && j.KeepFuncOrder {
				return def
			}
			return simrt.Pick(9000+kind, n, def)
		}
		if j.MonoCheck {
			escape.VerifMonotonicity(true, func(instr ssa.Instruction, reason string) {
				mono[fmt.Sprintf("self-check: monotonicity violation at %T in %s", instr, instr.Parent().String())] = true
			})
		}
		ea, err := escape.EscapeAnalysis(state, state.PointerAnalysis.CallGraph.Root)
		escape.VerifMonotonicity(false, nil)
		escape.VerifPick = nil
		lap("analysis")
		if err != nil {
			eo.Err = err.Error()
			return
		}
		// The fixpoint check comes first, straight after the analysis: the context walk below and the law and
		// monotonicity probes all apply transfer functions again (in other contexts, on weakened graphs), which creates
		// load nodes in the functions' shared node groups; a re-processing after them would see another state than
		// the one the analysis left and report a false "not a fixpoint".
		eo.NotFixed = escape.VerifReprocess(ea)
		lap("reprocess")
		for _, f := range escape.VerifSummarized(ea) {
			eo.Summarized = append(eo.Summarized, f.String())
			if escape.VerifOverflow(ea, f) {
				eo.Overflow = append(eo.Overflow, f.String())
				continue
			}
			eo.Hashes[f.String()] = fmt.Sprintf("%016x", escape.VerifLabelSig(escape.VerifFinalGraph(ea, f)))
			nn, ne := escape.VerifSize(escape.VerifFinalGraph(ea, f))
			eo.Counts["summary_nodes"] += nn
			eo.Counts["summary_edges"] += ne
		}
		st := escape.VerifAsState(ea)
		lap("hash")
		localityWalk(eo, state, st, prog, goRoots(prog, state))
		lap("walk")
		rng := &lawRng{x: uint64(j.LawSeed)*0x9e3779b97f4a7c15 + 1}
		if j.Laws > 0 {
			checkLaws(eo, ea, rng, j.Laws)
			checkActiveMonotonicity(eo, ea, rng, j.Laws)
		}
		lap("laws")
	})
	for m := range mono {
		eo.Mono = append(eo.Mono, m)
	}
	sort.Strings(eo.Mono)
	out.Sim = &sim
	if pv != nil {
		out.Panic = fmt.Sprintf("%v\n%s", pv, pstack)
	}
}
