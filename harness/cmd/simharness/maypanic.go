package main

import (
	"encoding/json"
	"fmt"
	"os"
	"path/filepath"
	"runtime/debug"

	"github.com/awslabs/ar-go-tools/analysis/maypanic"
	"github.com/awslabs/ar-go-tools/internal/zzverif/harness/load"
	"github.com/awslabs/ar-go-tools/internal/zzverif/simrt"
	"golang.org/x/tools/go/ssa"
)

// MayPanicOut is the may-panic report of a program.
type MayPanicOut struct {
	Findings []MayPanicFinding `json:"findings"`
	Raw      string            `json:"raw,omitempty"`
}

// MayPanicFinding is one reported goroutine entry function with the lines of its creation sites.
type MayPanicFinding struct {
	Function string `json:"function"`
	Line     int    `json:"line"`
	Creators []int  `json:"creators"`
}

func runMayPanic(j *Job, out *Out, workDir string) {
	var prog *ssa.Program
	var err error
	if len(j.Files) > 0 {
		prog, _, err = load.Source(j.Files)
	} else {
		prog, _, err = load.Dir(j.Dir, j.DirFiles)
	}
	if err != nil {
		out.LoadErr = "load: " + err.Error()
		return
	}
	tmp := filepath.Join(workDir, fmt.Sprintf("maypanic-%d-%d.json", os.Getpid(), j.ID))
	f, err := os.Create(tmp)
	if err != nil {
		out.LoadErr = err.Error()
		return
	}
	defer os.Remove(tmp)
	saved := os.Stdout
	os.Stdout = f
	// under the simulator so that the tape decides every map iteration order of the analysis
	sim := simrt.Run(j.Params, func() {
		defer func() {
			if r := recover(); r != nil {
				out.Panic = fmt.Sprintf("%v\n%s", r, debug.Stack())
			}
		}()
		maypanic.MayPanicAnalyzer(prog, nil, true)
	})
	out.Sim = &sim
	os.Stdout = saved
	f.Close()
	b, _ := os.ReadFile(tmp)
	type loc struct {
		Function string
		Filename string
		Line     int
		Column   int
	}
	var raw []struct {
		Description string
		GoRoutine   loc
		Creators    []loc
	}
	mp := &MayPanicOut{Findings: []MayPanicFinding{}}
	if err := json.Unmarshal(b, &raw); err != nil {
		mp.Raw = string(b)
		if out.Panic == "" {
			out.LoadErr = "maypanic output is not JSON: " + err.Error()
		}
	}
	for _, r := range raw {
		fd := MayPanicFinding{Function: r.GoRoutine.Function, Line: r.GoRoutine.Line, Creators: []int{}}
		for _, c := range r.Creators {
			fd.Creators = append(fd.Creators, c.Line)
		}
		mp.Findings = append(mp.Findings, fd)
	}
	out.MayPanic = mp
}
