package main

import (
	"fmt"
	"sort"

	"github.com/awslabs/ar-go-tools/analysis/dataflow"
	"golang.org/x/tools/go/ssa"
)

// checkGraph evaluates the C17 structural invariants on the graph a run has built. It returns the
// violations (category: detail, with address-free details) and the number of facts checked per category.
func checkGraph(g *dataflow.InterProceduralFlowGraph) ([]string, map[string]int) {
	return checkGraphMode(g, false)
}

// checkGraphMode with partial = true evaluates only the invariants that must hold after every single summary
// construction step (edge symmetry and the global read/write sets); linking of call sites and closures is completed
// lazily by the traversals and is checked when the analysis returns.
func checkGraphMode(g *dataflow.InterProceduralFlowGraph, partial bool) ([]string, map[string]int) {
	checks := map[string]int{}
	viol := map[string]bool{}
	add := func(cat string, format string, args ...any) {
		if len(viol) < 200 {
			viol[cat+": "+fmt.Sprintf(format, args...)] = true
		}
	}
	name := func(n dataflow.GraphNode) string {
		if n == nil {
			return "<nil>"
		}
		return dataflow.NodeKind(n) + "[" + n.ParentName() + "] " + n.String()
	}
	accessOf := map[*dataflow.GlobalNode]map[*dataflow.AccessGlobalNode]bool{}
	fns := make([]*ssa.Function, 0, len(g.Summaries))
	for fn := range g.Summaries {
		fns = append(fns, fn)
	}
	sort.Slice(fns, func(i, j int) bool { return fns[i].String() < fns[j].String() })
	for _, fn := range fns {
		s := g.Summaries[fn]
		if s == nil {
			continue
		}
		s.ForAllNodes(func(n dataflow.GraphNode) {
			for m, infos := range n.Out() {
				for _, info := range infos {
					checks["edge-out"]++
					in, ok := m.In()[n]
					if !ok {
						add("out-without-in", "%s -> %s (index %d)", name(n), name(m), info.Index)
						continue
					}
					if len(infos) == 1 && in.Index != info.Index {
						add("index-mismatch", "%s -> %s out index %d, in index %d", name(n), name(m), info.Index, in.Index)
					}
				}
				if len(infos) > 1 {
					// several outgoing edges with distinct tuple indices towards one target: the incoming
					// side keeps one EdgeInfo per source; it must at least be one of them
					checks["edge-multi-index"]++
					if in, ok := m.In()[n]; ok {
						found := false
						for _, info := range infos {
							if info.Index == in.Index {
								found = true
							}
						}
						if !found {
							add("index-mismatch", "%s -> %s in index %d not among out indices", name(n), name(m), in.Index)
						}
					}
				}
			}
			for src, info := range n.In() {
				checks["edge-in"]++
				outs, ok := src.Out()[n]
				if !ok {
					add("in-without-out", "%s <- %s (index %d)", name(n), name(src), info.Index)
					continue
				}
				found := false
				for _, o := range outs {
					if o.Index == info.Index {
						found = true
					}
				}
				if !found {
					add("index-mismatch", "%s <- %s in index %d not among out indices", name(n), name(src), info.Index)
				}
			}
			if a, ok := n.(*dataflow.AccessGlobalNode); ok && s.Constructed && a.Global != nil {
				if accessOf[a.Global] == nil {
					accessOf[a.Global] = map[*dataflow.AccessGlobalNode]bool{}
				}
				accessOf[a.Global][a] = true
			}
		})
		if partial {
			continue
		}
		for instr, byCallee := range s.Callees {
			for _, c := range byCallee {
				if c.CalleeSummary == nil {
					continue
				}
				checks["call-link"]++
				reg := c.CalleeSummary.Callsites[c.CallSite()]
				if reg == nil {
					add("callsite-not-registered", "call %s in %s linked to summary of %s", instr.String(), s.Parent.String(), c.CalleeSummary.Parent.String())
				} else if reg.CallSite() != c.CallSite() {
					add("callsite-wrong-node", "call %s in %s", instr.String(), s.Parent.String())
				}
			}
		}
		for instr, c := range s.Callsites {
			checks["callsite"]++
			if c == nil {
				add("callsite-nil", "%s in summary of %s", instr.String(), s.Parent.String())
				continue
			}
			if c.CallSite() != instr {
				add("callsite-key", "%s registered under another instruction in %s", instr.String(), s.Parent.String())
			}
			if c.CalleeSummary != nil && c.CalleeSummary != s {
				add("callsite-foreign", "call %s registered in summary of %s but linked to %s", instr.String(), s.Parent.String(), c.CalleeSummary.Parent.String())
			}
		}
		for instr, cn := range s.CreatedClosures {
			if cn.ClosureSummary == nil {
				continue
			}
			checks["closure-link"]++
			if cn.ClosureSummary.ReferringMakeClosures[instr] != cn {
				add("closure-not-registered", "%s in %s", instr.String(), s.Parent.String())
			}
		}
		for instr, cn := range s.ReferringMakeClosures {
			checks["closure-ref"]++
			if cn == nil || cn.ClosureSummary != s {
				add("closure-ref-foreign", "%s registered with %s", instr.String(), s.Parent.String())
			}
		}
	}
	if st := g.AnalyzerState; st != nil {
		for _, gn := range st.Globals {
			want := accessOf[gn]
			for n := range gn.WriteLocations {
				checks["global-write"]++
				a, ok := n.(*dataflow.AccessGlobalNode)
				if !ok || !want[a] || !a.IsWrite {
					add("global-write-extra", "%s has write location %s", gn.Value().String(), name(n))
				}
			}
			for n := range gn.ReadLocations {
				checks["global-read"]++
				a, ok := n.(*dataflow.AccessGlobalNode)
				if !ok || !want[a] {
					add("global-read-extra", "%s has read location %s", gn.Value().String(), name(n))
				}
			}
			for a := range want {
				checks["global-access"]++
				if a.IsWrite {
					if !gn.WriteLocations[a] {
						add("global-write-missing", "%s lacks write location %s", gn.Value().String(), name(a))
					}
				} else if len(a.Out()) > 0 && !gn.ReadLocations[a] {
					add("global-read-missing", "%s lacks read location %s", gn.Value().String(), name(a))
				}
			}
		}
	}
	out := make([]string, 0, len(viol))
	for v := range viol {
		out = append(out, v)
	}
	sort.Strings(out)
	return out, checks
}
