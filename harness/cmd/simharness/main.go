// simharness runs the analyser (system A) under simrt. It is copied into a scratch copy of the repository
// (internal/zzverif/cmd/simharness) by the driver, next to the instrumented code.
//
//	simharness worker -out results.jsonl < jobs.jsonl
//
// One JSON job per input line, one JSON result per output line (flushed); a "begin" line precedes every
// job so that a hard crash can be attributed.
//
// The repository's go.mod says go 1.22 (no types.Alias nodes); the scratch module is raised to 1.23 for
// range-over-func, so the old default is pinned here to keep the analysed type graphs identical.
//
//go:debug gotypesalias=0
package main

import (
	"bufio"
	"encoding/json"
	"flag"
	"fmt"
	"os"
	"path/filepath"
	"runtime/debug"
	"sort"
	"strings"
	"time"

	"github.com/awslabs/ar-go-tools/analysis/backtrace"
	"github.com/awslabs/ar-go-tools/analysis/config"
	"github.com/awslabs/ar-go-tools/analysis/dataflow"
	"github.com/awslabs/ar-go-tools/analysis/taint"
	"github.com/awslabs/ar-go-tools/internal/funcutil"
	_ "github.com/awslabs/ar-go-tools/internal/zzverif/harness/keys"
	"github.com/awslabs/ar-go-tools/internal/zzverif/harness/load"
	"github.com/awslabs/ar-go-tools/internal/zzverif/simrt"
	"golang.org/x/tools/go/packages"
	"golang.org/x/tools/go/ssa"
	"gopkg.in/yaml.v3"
)

// Job is one simulated run.
type Job struct {
	ID       int               `json:"id"`
	Kind     string            `json:"kind"` // taint | backtrace | mappar
	Files    map[string]string `json:"files,omitempty"`
	Dir      string            `json:"dir,omitempty"`
	DirFiles []string          `json:"dir_files,omitempty"`
	Config   string            `json:"config,omitempty"`      // yaml text
	ConfigAt string            `json:"config_path,omitempty"` // where the config file lives (for relative paths)
	Options  map[string]any    `json:"options,omitempty"`     // merged into the options: section
	Params   simrt.Params      `json:"params"`
	// mappar
	Len     int `json:"len,omitempty"`
	Workers int `json:"workers,omitempty"`
	// Events: include the event log in the result (replay / determinism tests)
	Events bool `json:"events,omitempty"`
	// escape jobs
	MonoCheck bool `json:"mono_check,omitempty"`
	Laws      int  `json:"laws,omitempty"`
	LawSeed   int  `json:"law_seed,omitempty"`
	// KeepFuncOrder: the function work queue keeps the order the analysis uses (block queue and map orders still vary)
	KeepFuncOrder bool `json:"keep_func_order,omitempty"`
}

// Out is the result of one job.
type Out struct {
	ID        int             `json:"id"`
	Begin     bool            `json:"begin,omitempty"`
	Sim       *simrt.Result   `json:"sim,omitempty"`
	Err       string          `json:"err,omitempty"`      // error returned by the analysis
	Panic     string          `json:"panic,omitempty"`    // panic in task 0 caught by the harness
	LoadErr   string          `json:"load_err,omitempty"` // the job could not be set up (not a verdict)
	Flows     []string        `json:"flows"`
	Escapes   []string        `json:"escapes"`
	Traces    []string        `json:"traces"`
	Race      string          `json:"race,omitempty"`
	C17       []string        `json:"c17,omitempty"`
	C17Checks map[string]int  `json:"c17_checks,omitempty"`
	Reports   map[string]Rept `json:"reports,omitempty"`
	MapPar    *MapParOut      `json:"mappar,omitempty"`
	Escape    *EscapeOut      `json:"escape,omitempty"`
	MayPanic  *MayPanicOut    `json:"maypanic,omitempty"`
	EventLog  []simrt.Event   `json:"events,omitempty"`
	WallMS    int64           `json:"wall_ms"`
	Summaries int             `json:"summaries,omitempty"`
	DupIDs    []string        `json:"dup_ids,omitempty"` // distinct summaries that were handed the same "unique" id
	Globals   int             `json:"globals,omitempty"`
}

// Rept describes a report file at the instant the analysis returned.
type Rept struct {
	Size    int      `json:"size"`
	Headers []string `json:"headers,omitempty"`
	Lines   int      `json:"lines"`
}

// MapParOut is the outcome of a MapParallel job.
type MapParOut struct {
	Equal     bool  `json:"equal"`
	Len       int   `json:"len"`
	Got       []int `json:"got,omitempty"`
	ExecCount []int `json:"exec_count,omitempty"`
}

func pos(prog *ssa.Program, i ssa.Instruction) string {
	if i == nil {
		return "<nil>"
	}
	p := prog.Fset.Position(i.Pos())
	if !p.IsValid() {
		// instructions without position: identify by function and text
		f := "?"
		if i.Parent() != nil {
			f = i.Parent().String()
		}
		return f + "@" + i.String()
	}
	return fmt.Sprintf("%s:%d:%d", filepath.Base(p.Filename), p.Line, p.Column)
}

func mergeConfig(text string, opts map[string]any) ([]byte, error) {
	var m map[string]any
	if strings.TrimSpace(text) == "" {
		m = map[string]any{}
	} else if err := yaml.Unmarshal([]byte(text), &m); err != nil {
		return nil, err
	}
	if len(opts) > 0 {
		o, _ := m["options"].(map[string]any)
		if o == nil {
			o = map[string]any{}
		}
		for k, v := range opts {
			o[k] = v
		}
		m["options"] = o
	}
	return yaml.Marshal(m)
}

func loadConfig(j *Job, reportsDir string) (*config.Config, error) {
	opts := map[string]any{}
	for k, v := range j.Options {
		opts[k] = v
	}
	needsDir := false
	for _, k := range []string{"report-summaries", "report-coverage", "report-paths", "report-no-callee-sites"} {
		if b, ok := opts[k].(bool); ok && b {
			needsDir = true
		}
	}
	if needsDir {
		opts["reports-dir"] = reportsDir
	}
	b, err := mergeConfig(j.Config, opts)
	if err != nil {
		return nil, err
	}
	name := j.ConfigAt
	if name == "" {
		name = filepath.Join(reportsDir, "config.yaml")
	}
	cfg, err := config.Load(name, b)
	if err != nil {
		return nil, err
	}
	if cfg.EscapeConfigFile != "" {
		esc, err := os.ReadFile(cfg.RelPath(cfg.EscapeConfigFile))
		if err != nil {
			return nil, err
		}
		if err := config.LoadEscape(cfg, esc); err != nil {
			return nil, err
		}
	} else if err := config.LoadEscape(cfg, nil); err != nil {
		return nil, err
	}
	return cfg, nil
}

func readReports(dir string) map[string]Rept {
	out := map[string]Rept{}
	ents, err := os.ReadDir(dir)
	if err != nil {
		return out
	}
	for _, e := range ents {
		if e.IsDir() || !strings.HasSuffix(e.Name(), ".out") && !strings.HasSuffix(e.Name(), ".csv") {
			continue
		}
		b, err := os.ReadFile(filepath.Join(dir, e.Name()))
		if err != nil {
			continue
		}
		kind := e.Name()
		if i := strings.Index(kind, "-"); i > 0 {
			kind = kind[:i]
		}
		r := out[kind]
		r.Size += len(b)
		for _, l := range strings.Split(string(b), "\n") {
			if l != "" {
				r.Lines++
			}
			if kind == "summaries" && strings.HasSuffix(l, ":") && !strings.HasPrefix(l, " ") && !strings.HasPrefix(l, "\t") {
				r.Headers = append(r.Headers, l)
			}
		}
		sort.Strings(r.Headers)
		out[kind] = r
	}
	return out
}

type raceLog struct {
	prefix string
	off    int64
}

func (r *raceLog) delta() string {
	if r.prefix == "" {
		return ""
	}
	name := fmt.Sprintf("%s.%d", r.prefix, os.Getpid())
	f, err := os.Open(name)
	if err != nil {
		return ""
	}
	defer f.Close()
	st, err := f.Stat()
	if err != nil || st.Size() <= r.off {
		return ""
	}
	buf := make([]byte, st.Size()-r.off)
	n, _ := f.ReadAt(buf, r.off)
	r.off += int64(n)
	return string(buf[:n])
}

func runAnalysis(j *Job, out *Out, workDir string) {
	reportsDir := filepath.Join(workDir, fmt.Sprintf("reports-%d", j.ID))
	_ = os.RemoveAll(reportsDir)
	if err := os.MkdirAll(reportsDir, 0o755); err != nil {
		out.LoadErr = err.Error()
		return
	}
	defer os.RemoveAll(reportsDir)
	cfg, err := loadConfig(j, reportsDir)
	if err != nil {
		out.LoadErr = "config: " + err.Error()
		return
	}
	var prog *ssa.Program
	var pkgs []*packages.Package
	if len(j.Files) > 0 {
		prog, pkgs, err = load.Source(j.Files)
	} else {
		prog, pkgs, err = load.Dir(j.Dir, j.DirFiles)
	}
	if err != nil {
		out.LoadErr = "load: " + err.Error()
		return
	}
	// C17 monitor between on-demand construction steps: the instrumenter calls simrt.Hook after every
	// dataflow.RunIntraProcedural; every fifth call (at most 25 per run) the step invariants are evaluated.
	hookCalls, hookChecks := 0, 0
	midViol := map[string]bool{}
	midChecks := map[string]int{}
	simrt.SetHook(func(site int, arg any) {
		st, ok := arg.(*dataflow.AnalyzerState)
		if !ok || st == nil || st.FlowGraph == nil {
			return
		}
		hookCalls++
		if hookCalls%5 != 0 || hookChecks >= 25 {
			return
		}
		hookChecks++
		v, c := checkGraphMode(st.FlowGraph, true)
		for _, x := range v {
			midViol["after an on-demand step: "+x] = true
		}
		for k, n := range c {
			midChecks["step:"+k] += n
		}
	})
	defer simrt.SetHook(nil)
	var tres taint.AnalysisResult
	var bres backtrace.AnalysisResult
	var aerr error
	var reports map[string]Rept
	var pv any
	var pstack string
	sim := simrt.Run(j.Params, func() {
		defer func() {
			// a panic of the analysis in its main goroutine is an outcome, not a harness failure
			if r := recover(); r != nil {
				pv = r
				pstack = string(debug.Stack())
			}
			reports = readReports(reportsDir)
		}()
		switch j.Kind {
		case "taint":
			tres, aerr = taint.Analyze(cfg, prog, pkgs)
		case "backtrace":
			bres, aerr = backtrace.Analyze(config.NewLogGroup(cfg), cfg, prog, pkgs)
		}
	})
	out.Sim = &sim
	out.Reports = reports
	if pv != nil {
		out.Panic = fmt.Sprintf("%v\n%s", pv, pstack)
	}
	if aerr != nil {
		out.Err = aerr.Error()
	}
	out.Flows, out.Escapes, out.Traces = []string{}, []string{}, []string{}
	if sim.Aborted {
		return
	}
	var graph *dataflow.InterProceduralFlowGraph
	switch j.Kind {
	case "taint":
		if tres.TaintFlows != nil {
			set := map[string]bool{}
			for sink, sources := range tres.TaintFlows.Sinks {
				for src := range sources {
					set[pos(prog, src.Instr)+" -> "+pos(prog, sink.Instr)] = true
				}
			}
			out.Flows = sorted(set)
			set = map[string]bool{}
			for esc, sources := range tres.TaintFlows.Escapes {
				for src := range sources {
					set[pos(prog, src)+" ~> "+pos(prog, esc)] = true
				}
			}
			out.Escapes = sorted(set)
		}
		if tres.State != nil {
			graph = tres.State.FlowGraph
		}
	case "backtrace":
		set := map[string]bool{}
		for entry, traces := range bres.Traces {
			for _, tr := range traces {
				if len(tr) == 0 {
					continue
				}
				first, last := tr[0], tr[len(tr)-1]
				set[nodePos(prog, first.GraphNode)+" => "+nodePos(prog, last.GraphNode)+" @ "+nodePos(prog, entry)] = true
			}
		}
		out.Traces = sorted(set)
		graph = &bres.Graph
	}
	if graph != nil && pv == nil {
		out.Summaries = len(graph.Summaries)
		out.DupIDs = duplicateSummaryIDs(graph)
		v, checks := checkGraph(graph)
		for x := range midViol {
			v = append(v, x)
		}
		sort.Strings(v)
		for k, n := range midChecks {
			checks[k] = n
		}
		checks["step:monitor-instants"] = hookChecks
		out.C17 = v
		out.C17Checks = checks
	}
}

// duplicateSummaryIDs lists ids carried by more than one summary graph. Ids come from a counter shared by the summary
// workers (dataflow.GetUniqueFunctionID); two graphs with one id mean an update of that counter was lost.
func duplicateSummaryIDs(graph *dataflow.InterProceduralFlowGraph) []string {
	byID := map[uint32]map[*dataflow.SummaryGraph]string{}
	for f, sg := range graph.Summaries {
		if sg == nil || f == nil {
			continue
		}
		if byID[sg.ID] == nil {
			byID[sg.ID] = map[*dataflow.SummaryGraph]string{}
		}
		byID[sg.ID][sg] = f.String()
	}
	var out []string
	for id, m := range byID {
		if len(m) > 1 {
			var names []string
			for _, n := range m {
				names = append(names, n)
			}
			sort.Strings(names)
			out = append(out, fmt.Sprintf("id %d: %s", id, strings.Join(names, ", ")))
		}
	}
	sort.Strings(out)
	return out
}

func nodePos(prog *ssa.Program, n dataflow.GraphNode) string {
	if n == nil {
		return "<nil>"
	}
	if i := dataflow.Instr(n); i != nil {
		return dataflow.NodeKind(n) + "@" + pos(prog, i)
	}
	name := n.ParentName()
	switch x := n.(type) {
	case *dataflow.ParamNode:
		return fmt.Sprintf("param %d of %s", x.Index(), name)
	case *dataflow.FreeVarNode:
		return fmt.Sprintf("freevar %d of %s", x.Index(), name)
	}
	return dataflow.NodeKind(n) + " in " + name
}

func sorted(m map[string]bool) []string {
	out := make([]string, 0, len(m))
	for k := range m {
		out = append(out, k)
	}
	sort.Strings(out)
	return out
}

func runMapPar(j *Job, out *Out) {
	a := make([]int, j.Len)
	for i := range a {
		a[i] = i * 3
	}
	pure := func(x int) int { return x*x + 1 }
	want := funcutil.Map(a, pure)
	exec := make([]int, j.Len)
	f := func(x int) int {
		simrt.Yield(1)
		exec[x/3]++ // each element belongs to exactly one call: unsynchronised on purpose
		simrt.Yield(2)
		return pure(x)
	}
	var got []int
	sim := simrt.Run(j.Params, func() {
		got = funcutil.MapParallel(a, f, j.Workers)
	})
	out.Sim = &sim
	if sim.Aborted {
		return
	}
	eq := len(want) == len(got)
	if eq {
		for i := range want {
			if want[i] != got[i] {
				eq = false
			}
		}
	}
	out.MapPar = &MapParOut{Equal: eq, Len: len(got), ExecCount: exec}
	if !eq {
		out.MapPar.Got = got
	}
}

func worker(outPath string, workDir string) {
	outF, err := os.OpenFile(outPath, os.O_CREATE|os.O_WRONLY|os.O_APPEND, 0o644)
	if err != nil {
		fmt.Fprintln(os.Stderr, "simharness:", err)
		os.Exit(2)
	}
	// the analyser logs to os.Stdout; keep it away from the result stream
	devnull, _ := os.OpenFile(os.DevNull, os.O_WRONLY, 0)
	os.Stdout = devnull
	w := bufio.NewWriter(outF)
	emit := func(o *Out) {
		b, err := json.Marshal(o)
		if err != nil {
			fmt.Fprintln(os.Stderr, "simharness: marshal:", err)
			os.Exit(2)
		}
		w.Write(b)
		w.WriteByte('\n')
		w.Flush()
	}
	rl := &raceLog{}
	for _, kv := range strings.Fields(os.Getenv("GORACE")) {
		if strings.HasPrefix(kv, "log_path=") {
			rl.prefix = strings.TrimPrefix(kv, "log_path=")
		}
	}
	sc := bufio.NewScanner(os.Stdin)
	sc.Buffer(make([]byte, 1<<20), 1<<28)
	for sc.Scan() {
		line := sc.Bytes()
		if len(line) == 0 {
			continue
		}
		var j Job
		if err := json.Unmarshal(line, &j); err != nil {
			fmt.Fprintln(os.Stderr, "simharness: bad job:", err)
			os.Exit(2)
		}
		emit(&Out{ID: j.ID, Begin: true})
		rl.delta()
		start := time.Now()
		out := &Out{ID: j.ID}
		switch j.Kind {
		case "taint", "backtrace":
			runAnalysis(&j, out, workDir)
		case "mappar":
			runMapPar(&j, out)
		case "escape":
			runEscape(&j, out, workDir)
		case "maypanic":
			runMayPanic(&j, out, workDir)
		default:
			out.LoadErr = "unknown job kind " + j.Kind
		}
		out.Race = rl.delta()
		if j.Events {
			out.EventLog = simrt.Events()
		}
		out.WallMS = time.Since(start).Milliseconds()
		emit(out)
		if out.Sim != nil && out.Sim.Aborted {
			// parked goroutines are left behind: start afresh
			w.Flush()
			os.Exit(3)
		}
	}
}

func main() {
	if len(os.Args) < 2 {
		fmt.Fprintln(os.Stderr, "usage: simharness worker ...")
		os.Exit(2)
	}
	switch os.Args[1] {
	case "worker":
		fs := flag.NewFlagSet("worker", flag.ExitOnError)
		outPath := fs.String("out", "", "result file (appended)")
		workDir := fs.String("work", os.TempDir(), "scratch directory for report files")
		fs.Parse(os.Args[2:])
		worker(*outPath, *workDir)
	default:
		fmt.Fprintln(os.Stderr, "unknown mode", os.Args[1])
		os.Exit(2)
	}
}
