// Package keys registers deterministic descriptions of the map key types used in the analyser, so that
// simrt.RangeMap can put keys in a canonical (address-free) order.
package keys

import (
	"fmt"
	"go/token"
	"go/types"
	"reflect"
	"strconv"

	"github.com/awslabs/ar-go-tools/analysis/dataflow"
	"github.com/awslabs/ar-go-tools/internal/zzverif/simrt"
	"golang.org/x/tools/go/ssa"
)

func fn(f *ssa.Function) string {
	if f == nil {
		return "<nilfunc>"
	}
	s := f.String()
	if f.Pkg == nil && f.Parent() == nil {
		// synthetic wrappers, instantiations: add the signature to separate same-named ones
		s += "~" + f.Signature.String()
	}
	return s
}

func instr(i ssa.Instruction) string {
	b := i.Block()
	if b == nil {
		return fn(i.Parent()) + "|?|" + i.String()
	}
	idx := -1
	for k, x := range b.Instrs {
		if x == i {
			idx = k
			break
		}
	}
	return fn(i.Parent()) + "|" + fmt.Sprintf("%06d|%06d", b.Index, idx)
}

func isNilPtr(k any) bool {
	v := reflect.ValueOf(k)
	return v.Kind() == reflect.Pointer && v.IsNil()
}

func describe(k any) (string, bool) {
	switch x := k.(type) {
	case *ssa.Function:
		return "F:" + fn(x), true
	case *dataflow.GlobalNode:
		if x == nil || x.Value() == nil {
			return "G:<nil>", true
		}
		return "G:" + x.Value().String(), true
	case *dataflow.Mark:
		if x == nil {
			return "K:<nil>", true
		}
		n, _ := simrt.Describe(x.Node)
		q, _ := simrt.Describe(x.Qualifier)
		return fmt.Sprintf("K:%s|%d|%s|%v|%s", n, x.Type, q, x.Index, x.Label), true
	case *ssa.BasicBlock:
		if x == nil {
			return "B:<nil>", true
		}
		return "B:" + fn(x.Parent()) + "|" + strconv.Itoa(x.Index), true
	case *ssa.Package:
		if x == nil || x.Pkg == nil {
			return "P:<nil>", true
		}
		return "P:" + x.Pkg.Path(), true
	case token.Position:
		return x.String(), true
	case error:
		return "E:" + x.Error(), true
	case reflect.Type:
		return "T:" + x.String(), true
	case types.Type:
		return "T:" + x.String(), true
	}
	if isNilPtr(k) {
		return "<nil>", true
	}
	if i, ok := k.(ssa.Instruction); ok {
		return "I:" + instr(i), true
	}
	if v, ok := k.(ssa.Value); ok {
		switch x := v.(type) {
		case *ssa.Parameter:
			return "V:" + fn(x.Parent()) + "|param|" + x.Name(), true
		case *ssa.FreeVar:
			return "V:" + fn(x.Parent()) + "|fv|" + x.Name(), true
		case *ssa.Global:
			return "V:global|" + x.String(), true
		case *ssa.Const:
			return "V:const|" + x.String(), true
		case *ssa.Builtin:
			return "V:builtin|" + x.Name() + "|" + x.Type().String(), true
		}
		return "V:" + v.Name() + "|" + v.String(), true
	}
	if m, ok := k.(ssa.Member); ok {
		return "M:" + m.String(), true
	}
	return "", false
}

func init() { simrt.RegisterKeyDescriber(describe) }
